use std::{error::Error as StdError, fmt, sync::PoisonError};

pub(crate) type Result<T> = std::result::Result<T, Error>;

/// Possible database errors
#[derive(Debug)]
pub enum Error {
    /// Tried to create a bucket that already exists
    BucketExists,
    /// Tried to get a bucket that does not exist
    BucketMissing,
    /// Tried to delete a key / value pair that does not exist
    KeyValueMissing,
    /// Tried to get a bucket but found a key / value pair instead, or tried to put a key / value pair but found an existing bucket
    IncompatibleValue,
    /// Tried to write to a read only transaction
    ReadOnlyTx,
    /// Wrapper around a [`std::io::Error`] that occurred while opening the file or writing to it
    Io(std::io::Error),
    /// Wrapper around a [`PoisonError`]
    Sync(&'static str),
    /// Error returned when the DB is found to be in an invalid state
    InvalidDB(String),
    /// Errors that can occur during allocation
    Alloc(std::alloc::LayoutError),
}

impl StdError for Error {}

impl fmt::Display for Error {
    fn fmt(&self, f: &mut fmt::Formatter) -> fmt::Result {
        match self {
            Error::BucketExists => write!(f, "Bucket already exists"),
            Error::BucketMissing => write!(f, "Bucket does not exist"),
            Error::KeyValueMissing => write!(f, "Key / Value pair does not exist"),
            Error::IncompatibleValue => write!(f, "Value not compatible"),
            Error::ReadOnlyTx => write!(f, "Cannot write in a read-only transaction"),
            Error::Io(e) => write!(f, "IO Error: {}", e),
            Error::Sync(s) => write!(f, "Sync Error: {}", s),
            Error::InvalidDB(s) => write!(f, "Invalid DB: {}", s),
            Error::Alloc(e) => write!(f, "Allocation error: {}", e),
        }
    }
}

impl From<std::io::Error> for Error {
    fn from(err: std::io::Error) -> Error {
        Error::Io(err)
    }
}

impl From<std::alloc::LayoutError> for Error {
    fn from(err: std::alloc::LayoutError) -> Error {
        Error::Alloc(err)
    }
}

impl<T> From<PoisonError<T>> for Error {
    fn from(_: PoisonError<T>) -> Error {
        Error::Sync("lock poisoned")
    }
}

impl PartialEq for Error {
    fn eq(&self, other: &Self) -> bool {
        match (self, other) {
            (Error::BucketExists, Error::BucketExists) => true,
            (Error::BucketMissing, Error::BucketMissing) => true,
            (Error::KeyValueMissing, Error::KeyValueMissing) => true,
            (Error::IncompatibleValue, Error::IncompatibleValue) => true,
            (Error::ReadOnlyTx, Error::ReadOnlyTx) => true,
            (Error::Sync(s1), Error::Sync(s2)) => s1 == s2,
            (Error::InvalidDB(s1), Error::InvalidDB(s2)) => s1 == s2,
            _ => false,
        }
    }
}

#[cfg(test)]
mod tests {
    use super::*;

    #[test]
    fn test_error_display() {
        assert_eq!(format!("{}", Error::BucketExists), "Bucket already exists");
        assert_eq!(format!("{}", Error::BucketMissing), "Bucket does not exist");
        assert_eq!(
            format!("{}", Error::KeyValueMissing),
            "Key / Value pair does not exist"
        );
        assert_eq!(
            format!("{}", Error::IncompatibleValue),
            "Value not compatible"
        );
        assert_eq!(
            format!("{}", Error::ReadOnlyTx),
            "Cannot write in a read-only transaction"
        );

        assert_eq!(
            format!(
                "{}",
                Error::Io(std::io::Error::new(std::io::ErrorKind::NotFound, "oopsie"))
            ),
            "IO Error: oopsie"
        );
        assert_eq!(format!("{}", Error::Sync("abc")), "Sync Error: abc");
        assert_eq!(
            format!("{}", Error::InvalidDB(String::from("uh oh"))),
            "Invalid DB: uh oh"
        );
    }
}
