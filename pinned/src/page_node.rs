use std::{cell::RefCell, rc::Rc};

use crate::{
    node::{Leaf, Node, NodeData, NodeID},
    page::{Page, PageID},
};

#[derive(Clone, Copy)]
pub(crate) enum PageNodeID {
    Page(PageID),
    Node(NodeID),
}

pub(crate) enum PageNode<'a> {
    Page(&'a Page),
    Node(Rc<RefCell<Node<'a>>>),
}

impl<'a> PageNode<'a> {
    pub fn id(&self) -> PageNodeID {
        match self {
            PageNode::Page(p) => PageNodeID::Page(p.id),
            PageNode::Node(n) => PageNodeID::Node(n.borrow().id),
        }
    }
    pub fn leaf(&self) -> bool {
        match self {
            PageNode::Page(p) => p.page_type == Page::TYPE_LEAF,
            PageNode::Node(n) => n.borrow().leaf(),
        }
    }

    pub fn len(&self) -> usize {
        match self {
            PageNode::Page(p) => p.count as usize,
            PageNode::Node(n) => n.borrow().data.len(),
        }
    }

    pub fn index_page(&self, index: usize) -> PageID {
        match self {
            PageNode::Page(p) => {
                if index >= p.count as usize {
                    return 0;
                }
                match p.page_type {
                    Page::TYPE_BRANCH => p.branch_elements()[index].page,
                    _ => panic!("INVALID PAGE TYPE FOR INDEX_PAGE"),
                }
            }
            PageNode::Node(n) => {
                let n = n.borrow();
                if index >= n.data.len() {
                    return 0;
                }
                match &n.data {
                    NodeData::Branches(b) => b[index].page,
                    _ => panic!("INVALID NODE TYPE FOR INDEX_PAGE"),
                }
            }
        }
    }

    pub fn index(&self, key: &[u8]) -> (usize, bool) {
        let result = match self {
            PageNode::Page(p) => match p.page_type {
                Page::TYPE_LEAF => p.leaf_elements().binary_search_by_key(&key, |e| e.key()),
                Page::TYPE_BRANCH => p.branch_elements().binary_search_by_key(&key, |e| e.key()),
                _ => panic!("INVALID PAGE TYPE FOR INDEX: {:?}", p.page_type),
            },
            PageNode::Node(n) => match &n.borrow().data {
                NodeData::Branches(b) => b.binary_search_by_key(&key, |b| b.key()),
                NodeData::Leaves(l) => l.binary_search_by_key(&key, |l| l.key()),
            },
        };
        match result {
            Ok(i) => (i, true),
            // we didn't find the element, so point at the element just "before" the missing element
            Err(mut i) => {
                i = i.saturating_sub(1);
                (i, false)
            }
        }
    }

    pub fn val<'b>(&'b self, index: usize) -> Option<Leaf<'a>> {
        match self {
            PageNode::Page(p) => match p.page_type {
                Page::TYPE_LEAF => p.leaf_elements().get(index).map(Leaf::from_leaf),
                _ => panic!("INVALID PAGE TYPE FOR VAL"),
            },
            PageNode::Node(n) => match &n.borrow().data {
                NodeData::Leaves(l) => l.get(index).cloned(),
                _ => panic!("INVALID NODE TYPE FOR VAL"),
            },
        }
    }
}
