use std::hash::Hasher;

use fnv::FnvHasher;

use crate::{bucket::BucketMeta, page::PageID};

#[repr(C)]
#[derive(Debug, Clone)]
pub(crate) struct Meta {
    pub(crate) meta_page: u32,
    pub(crate) magic: u32,
    pub(crate) version: u32,
    pub(crate) pagesize: u64,
    pub(crate) root: BucketMeta,
    pub(crate) num_pages: PageID,
    pub(crate) freelist_page: PageID,
    pub(crate) tx_id: u64,
    pub(crate) hash: u64,
}

impl Meta {
    pub(crate) fn valid(&self) -> bool {
        self.hash == self.hash_self()
    }

    pub(crate) fn hash_self(&self) -> u64 {
        let mut hasher = FnvHasher::default();

        hasher.write(&self.meta_page.to_be_bytes());
        hasher.write(&self.magic.to_be_bytes());
        hasher.write(&self.version.to_be_bytes());
        hasher.write(&self.pagesize.to_be_bytes());
        hasher.write(&self.root.root_page.to_be_bytes());
        hasher.write(&self.root.next_int.to_be_bytes());
        hasher.write(&self.num_pages.to_be_bytes());
        hasher.write(&self.freelist_page.to_be_bytes());
        hasher.write(&self.tx_id.to_be_bytes());

        hasher.finish()
    }
}

// OldMeta is the metadata format for versions <= 0.10
// For now we check all databases for either metadata version,
// but always write the new format.
use std::io::Write;

use bytes::BufMut;
use sha3::{Digest, Sha3_256};

#[repr(C)]
#[derive(Debug, Clone)]
pub(crate) struct OldMeta {
    pub(crate) meta_page: u32,
    pub(crate) magic: u32,
    pub(crate) version: u32,
    pub(crate) pagesize: u64,
    pub(crate) root: BucketMeta,
    pub(crate) num_pages: PageID,
    pub(crate) freelist_page: PageID,
    pub(crate) tx_id: u64,
    pub(crate) hash: [u8; 32],
}

impl OldMeta {
    pub(crate) fn valid(&self) -> bool {
        self.hash == self.hash_self()
    }

    pub(crate) fn hash_self(&self) -> [u8; 32] {
        let mut hash_result: [u8; 32] = [0; 32];
        let mut hasher = Sha3_256::new();
        hasher.update(self.bytes());
        let hash = hasher.finalize();
        assert_eq!(hash.len(), 32);
        hash_result.copy_from_slice(&hash[..]);
        hash_result
    }

    fn bytes(&self) -> bytes::Bytes {
        let buf = bytes::BytesMut::new();
        let mut w = buf.writer();
        let _ = w.write(&self.meta_page.to_be_bytes());
        let _ = w.write(&self.magic.to_be_bytes());
        let _ = w.write(&self.version.to_be_bytes());
        let _ = w.write(&self.pagesize.to_be_bytes());
        let _ = w.write(&self.root.root_page.to_be_bytes());
        let _ = w.write(&self.root.next_int.to_be_bytes());
        let _ = w.write(&self.num_pages.to_be_bytes());
        let _ = w.write(&self.freelist_page.to_be_bytes());
        let _ = w.write(&self.tx_id.to_be_bytes());

        w.into_inner().freeze()
    }
}

impl From<&OldMeta> for Meta {
    fn from(val: &OldMeta) -> Self {
        let mut m = Meta {
            meta_page: val.meta_page,
            magic: val.magic,
            version: val.version,
            pagesize: val.pagesize,
            root: val.root,
            num_pages: val.num_pages,
            freelist_page: val.freelist_page,
            tx_id: val.tx_id,
            hash: 0,
        };

        m.hash = m.hash_self();
        m
    }
}

#[cfg(test)]
mod tests {
    use super::*;

    #[test]
    fn test_meta() {
        let mut meta = Meta {
            meta_page: 1,
            magic: 1_234_567_890,
            version: 987_654_321,
            pagesize: 4096,
            root: BucketMeta {
                root_page: 2,
                next_int: 2020,
            },
            num_pages: 13,
            freelist_page: 3,
            tx_id: 8,
            hash: 64,
        };

        assert!(!meta.valid());
        meta.hash = meta.hash_self();
        assert_eq!(meta.hash, meta.hash_self());

        meta.tx_id = 88;
        assert_ne!(meta.hash, meta.hash_self());

        meta.hash = meta.hash_self();
        assert_eq!(meta.hash, meta.hash_self());
    }

    #[test]
    fn test_old_meta() {
        let mut meta = OldMeta {
            meta_page: 1,
            magic: 1_234_567_890,
            version: 987_654_321,
            pagesize: 4096,
            root: BucketMeta {
                root_page: 2,
                next_int: 2020,
            },
            num_pages: 13,
            freelist_page: 3,
            tx_id: 8,
            hash: [255; 32],
        };

        assert!(!meta.valid());
        meta.hash = meta.hash_self();
        assert_eq!(meta.hash, meta.hash_self());

        meta.tx_id = 88;
        assert_ne!(meta.hash, meta.hash_self());

        meta.hash = meta.hash_self();
        assert_eq!(meta.hash, meta.hash_self());
    }
}
