use std::{
    cmp::Ordering,
    hash::{Hash, Hasher},
    rc::Rc,
};

pub trait ToBytes<'a> {
    fn to_bytes(self) -> Bytes<'a>;
}

impl<'a> ToBytes<'a> for &'a [u8] {
    fn to_bytes(self) -> Bytes<'a> {
        Bytes::Slice(self)
    }
}

impl<'a> ToBytes<'a> for &'a str {
    fn to_bytes(self) -> Bytes<'a> {
        Bytes::Slice(self.as_bytes())
    }
}

macro_rules! byte_array_to_bytes {
    ($($n:expr),*) => (
    $(
        impl<'a> ToBytes<'a> for [u8; $n] {
            fn to_bytes(self) -> Bytes<'a> {
                Bytes::Bytes(bytes::Bytes::copy_from_slice(&self))
            }
        }
    )*
)
}

// We don't want to automatically copy arrays of any length,
// but for concenience, we'll copy arrays for integer sizes
// so that if you do i.to_be_bytes() it will work for any int.
byte_array_to_bytes!(0, 1, 2, 3, 4, 5, 6, 7, 8, 9, 10, 11, 12, 13, 14, 15, 16);

impl<'a> ToBytes<'a> for String {
    fn to_bytes(self) -> Bytes<'a> {
        Bytes::String(Rc::new(self))
    }
}

impl<'a> ToBytes<'a> for Vec<u8> {
    fn to_bytes(self) -> Bytes<'a> {
        Bytes::Vec(Rc::new(self))
    }
}

impl<'a> ToBytes<'a> for bytes::Bytes {
    fn to_bytes(self) -> Bytes<'a> {
        Bytes::Bytes(self)
    }
}

impl<'a> ToBytes<'a> for &bytes::Bytes {
    fn to_bytes(self) -> Bytes<'a> {
        Bytes::Bytes(self.clone())
    }
}

impl<'a> ToBytes<'a> for Bytes<'a> {
    fn to_bytes(self) -> Bytes<'a> {
        self
    }
}

impl<'a> ToBytes<'a> for &Bytes<'a> {
    fn to_bytes(self) -> Bytes<'a> {
        self.clone()
    }
}

#[derive(Debug, Clone)]
pub enum Bytes<'a> {
    Slice(&'a [u8]),
    Bytes(bytes::Bytes),
    Vec(Rc<Vec<u8>>),
    String(Rc<String>),
}

impl<'a> Bytes<'a> {
    pub fn size(&self) -> usize {
        match self {
            Self::Slice(s) => s.len(),
            Self::Bytes(b) => b.len(),
            Self::Vec(v) => v.len(),
            Self::String(s) => s.len(),
        }
    }
}

impl<'a> AsRef<[u8]> for Bytes<'a> {
    fn as_ref(&self) -> &[u8] {
        match self {
            Self::Slice(s) => s,
            Self::Bytes(b) => b,
            Self::Vec(v) => v.as_slice(),
            Self::String(s) => s.as_bytes(),
        }
    }
}

impl<'a> Ord for Bytes<'a> {
    fn cmp(&self, other: &Self) -> Ordering {
        let a = self.as_ref();
        let b = other.as_ref();
        a.cmp(b)
    }
}

impl<'a> PartialOrd for Bytes<'a> {
    fn partial_cmp(&self, other: &Self) -> Option<Ordering> {
        Some(self.cmp(other))
    }
}

impl<'a> PartialEq for Bytes<'a> {
    fn eq(&self, other: &Self) -> bool {
        let a = self.as_ref();
        let b = other.as_ref();
        a.eq(b)
    }
}

impl<'a> Eq for Bytes<'a> {}

impl<'a> Hash for Bytes<'a> {
    fn hash<H: Hasher>(&self, state: &mut H) {
        let a = self.as_ref();
        a.hash(state);
    }
}

#[cfg(test)]
mod tests {
    use super::*;

    #[test]
    fn from_vec() {
        let vec: Vec<u8> = vec![0, 0, 0];
        let ptr = vec.as_slice()[0] as *const u8;
        let b: Bytes = vec.to_bytes();
        let ptr2 = b.as_ref()[0] as *const u8;
        assert!(ptr == ptr2);
    }

    #[test]
    fn from_str() {
        let s = "abc";
        let ptr = s.as_bytes()[0] as *const u8;
        let b: Bytes = s.to_bytes();
        let ptr2 = b.as_ref()[0] as *const u8;
        assert!(ptr == ptr2);
    }
}
