// This module exists to allow us to write hidden compile_fail doc tests that assert our types have the appropriate lifetimes.

/// // Make sure a tx cannot outlife a db.
/// ```compile_fail
/// use jammdb::{DB, Tx, Error};
///
/// fn main() -> Result<(), Error> {
///     let tx: Tx;
///     {
///         // open a new database file
///         let db = DB::open("my-database.db")?;
///
///         // open a writable transaction so we can make changes
///         tx = db.tx(true)?;
///     }
///     let names_bucket = tx.get_bucket("names")?;
///     Ok(())
/// }
///
/// ```
///
#[doc(hidden)]
#[allow(dead_code)]
struct TxLifetime();

/// // Make sure a bucket cannot outlife a tx.
/// ```compile_fail
/// use jammdb::{DB, Bucket, Error};
///
/// fn main() -> Result<(), Error> {
///     // open a new database file
///     let db = DB::open("my-database.db")?;
///     let b: Bucket;
///     {
///         // open a writable transaction so we can make changes
///         let tx = db.tx(true)?;
///         b = tx.get_bucket("names")?;
///     }
///     b.put("abc", "def");
///     Ok(())
/// }
///
/// ```
///
#[doc(hidden)]
#[allow(dead_code)]
struct BucketLifetime();

/// // Make sure a kv-pair cannot outlive a tx.
/// ```compile_fail
/// use jammdb::{DB, KVPair, Error};
///
/// fn main() -> Result<(), Error> {
///     // open a new database file
///     let db = DB::open("my-database.db")?;
///     let kv: KVPair;
///     {
///         // open a writable transaction so we can make changes
///         let tx = db.tx(true)?;
///         let b = tx.get_bucket("names")?;
///         kv = b.get_kv("data").unwrap();
///     }
///     let key = kv.key();
///     Ok(())
/// }
/// ```
///
#[doc(hidden)]
#[allow(dead_code)]
struct KVPairLifetime();
