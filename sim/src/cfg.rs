//! SEQ-CFG engine (C16): one seeded history executed under many option sets, each in its own
//! child process; every run must pass the model oracle and all transcripts must be identical.
use crate::case::{Case, Verdict};
use crate::props;
use crate::rng::{mix, Rng};
use crate::seq::{Engine, Source, Violation};
use crate::step::{Blob, Step, Via};
use bumpalo::Bump;
use serde_json::{json, Value};
use std::io::Write;
use std::process::{Command, Stdio};

pub const PAGE_SIZES: [u64; 9] = [1024, 1032, 2048, 3000, 4096, 5000, 16384, 65536, 1 << 20];
pub const NUM_PAGES: [usize; 3] = [4, 32, 1000];

fn growth_history(seed: u64) -> Vec<Step> {
    // starts at whatever num_pages says and writes enough to cross several 8 MiB extensions
    let mut r = Rng::new(mix(seed, 0x6407));
    let mut v = Vec::new();
    let p: Vec<Vec<u8>> = vec![b"big".to_vec()];
    let mut tag = 1u32;
    for t in 0..5u32 {
        v.push(Step::Begin { rw: true });
        v.push(Step::GetOrCreate { path: vec![], name: Blob::Raw(b"big".to_vec()), via: Via::Vec });
        for k in 0..3u32 {
            tag += 1;
            let len = (2 << 20) + r.below(1 << 20) as u32;
            v.push(Step::Put { path: p.clone(), key: Blob::Raw(format!("v{}-{}", t, k).into_bytes()), val: Blob::Pat { tag, len }, via: Via::Vec });
        }
        if t >= 2 {
            v.push(Step::Delete { path: p.clone(), key: Blob::Raw(format!("v{}-0", t - 2).into_bytes()) });
        }
        for k in 0..6u32 {
            tag += 1;
            v.push(Step::Put { path: p.clone(), key: Blob::Raw(format!("s{}", (t * 6 + k) % 20).into_bytes()), val: Blob::Pat { tag, len: 50 + k * 77 }, via: Via::Vec });
        }
        v.push(Step::Commit);
        if t == 2 {
            v.push(Step::Reopen);
        }
    }
    v.push(Step::Begin { rw: false });
    v.push(Step::Scan { path: p.clone(), extra_next: 1 });
    v.push(Step::Drop);
    v
}

/// Run a case in a child process. Err(description) when the child was killed by a signal.
fn child(case: &Case) -> Result<Value, String> {
    let exe = std::env::current_exe().map_err(|e| e.to_string())?;
    let mut ch = Command::new(exe)
        .arg("oneshot")
        .stdin(Stdio::piped())
        .stdout(Stdio::piped())
        .stderr(Stdio::null())
        .spawn()
        .map_err(|e| format!("spawn: {}", e))?;
    {
        let mut si = ch.stdin.take().unwrap();
        let _ = si.write_all(serde_json::to_string(&case.to_json()).unwrap().as_bytes());
    }
    let out = ch.wait_with_output().map_err(|e| format!("wait: {}", e))?;
    if !out.status.success() {
        use std::os::unix::process::ExitStatusExt;
        return Err(match out.status.signal() {
            Some(s) => format!("killed by signal {}", s),
            None => format!("exit status {:?}", out.status.code()),
        });
    }
    serde_json::from_slice(&out.stdout).map_err(|e| format!("child output: {}", e))
}

pub fn oneshot() -> i32 {
    let mut s = String::new();
    use std::io::Read;
    let _ = std::io::stdin().read_to_string(&mut s);
    let case = match serde_json::from_str::<Value>(&s).ok().and_then(|v| Case::from_json(&v)) {
        Some(c) => c,
        None => return 3,
    };
    let refusal_probe = case.extra.get("odd").and_then(|x| x.as_bool()).unwrap_or(false);
    let v = if refusal_probe { run_odd(&case) } else { props::exec_seq(&case) };
    crate::simos::bypass(|| {
        let _ = std::fs::remove_dir_all(props::scratch_root());
    });
    let out = json!({
        "violation": v.violation.as_ref().map(|x| json!({"oracle": x.oracle, "site": x.site, "detail": x.detail, "step": x.step})),
        "aborted": v.aborted.as_ref().map(|x| json!({"oracle": x.oracle, "site": x.site, "detail": x.detail})),
        // the transcript compared across configurations: API outcomes only (SimOS events
        // such as write offsets and sizes depend on the page size by design)
        "trace": format!("{:016x}", v.api_trace),
        "commits": v.stats.commits,
        "steps": v.stats.steps,
        "growths": v.stats.probes.get("file_growth").copied().unwrap_or(0),
        "harness": v.harness_error,
        "refused": v.skipped,
    });
    println!("{}", out);
    0
}

/// An unusual page size: either it works like any other, or it is refused before the file is
/// touched (an error, or an unwinding panic from the builder / open).
fn run_odd(case: &Case) -> Verdict {
    let case2 = case.clone();
    let dir = props::fresh_dir("odd");
    let dir2 = dir.clone();
    let r = props::on_fresh_thread(case.seed, dir, move || {
        let path = format!("{}/db", dir2);
        let ps = case2.pagesize;
        let np = case2.num_pages;
        let opened = crate::seq::catch(|| jammdb::OpenOptions::new().pagesize(ps).num_pages(np).open(&path));
        let refused = match &opened {
            Ok(Ok(_)) => None,
            Ok(Err(e)) => Some(format!("error: {}", e)),
            Err(p) => Some(format!("panic: {}", p)),
        };
        drop(opened);
        if let Some(why) = refused {
            let touched = crate::simos::mutations_since(0);
            let mut v = Verdict { skipped: Some(why.clone()), ..Default::default() };
            if touched > 0 {
                v.violation = Some(Violation {
                    oracle: "cfg-refusal".into(),
                    site: "odd page size".into(),
                    detail: format!("page size {} was refused ({}) only after {} write/extend/sync call(s) on the file", ps, why, touched),
                    step: 0,
                    in_rw_tx: false,
                });
            }
            return v;
        }
        crate::simos::bypass(|| {
            let _ = std::fs::remove_file(&path);
        });
        crate::simos::forget(&path);
        let arena = Bump::new();
        let ecfg = props::engine_cfg(&case2, &path);
        let src = Source::List(case2.steps.clone().unwrap_or_default().into_iter().collect());
        let out = Engine::new(ecfg, src, &arena).run();
        let mut v = Verdict { violation: out.violation, aborted: out.aborted, trace: out.trace, api_trace: out.trace, issued: out.issued, stats: out.stats, ..Default::default() };
        if let Some(h) = crate::seq::HARNESS_FAULT.with(|p| p.borrow_mut().take()) {
            v.harness_error = Some(format!("the harness itself panicked: {}", h));
        }
        v
    });
    match r {
        Ok(v) => v,
        Err(e) => Verdict { harness_error: Some(e), ..Default::default() },
    }
}

pub fn execute(case: &Case) -> Verdict {
    let thorough = case.extra.get("thorough").and_then(|x| x.as_bool()).unwrap_or(false);
    let mut r = Rng::new(mix(case.seed, 0xCF6));
    let growth = case.extra.get("growth").and_then(|x| x.as_bool()).unwrap_or_else(|| r.chance(1, 5));
    let mut v = Verdict::default();
    // ---- the history, generated once, independent of the page size under test
    let steps: Vec<Step> = match &case.steps {
        Some(s) => s.clone(),
        None => {
            if growth {
                growth_history(case.seed)
            } else {
                let mut base = case.clone();
                base.engine = "seq".into();
                base.pagesize = 4096;
                base.num_pages = 32;
                base.strict = false;
                base.populate = false;
                let b = props::exec_seq(&base);
                if b.violation.is_some() || b.aborted.is_some() || b.harness_error.is_some() {
                    v.aborted = b.violation.or(b.aborted);
                    v.harness_error = b.harness_error;
                    return v;
                }
                b.issued
            }
        }
    };
    v.issued = steps.clone();
    // ---- configurations
    let mut configs: Vec<(u64, usize, bool, bool)> = Vec::new();
    if let Some(c) = case.extra.get("configs").and_then(|x| x.as_array()) {
        for x in c {
            configs.push((x[0].as_u64().unwrap_or(4096), x[1].as_u64().unwrap_or(32) as usize, x[2].as_bool().unwrap_or(false), x[3].as_bool().unwrap_or(false)));
        }
    } else {
        let mut all = Vec::new();
        for ps in PAGE_SIZES {
            for np in NUM_PAGES {
                for strict in [false, true] {
                    for pop in [false, true] {
                        // eager population of a gigabyte of sparse tmpfs per child is not affordable
                        if pop && ps * np as u64 > (256 << 20) {
                            continue;
                        }
                        all.push((ps, np, strict, pop));
                    }
                }
            }
        }
        if thorough && !growth {
            configs = all;
        } else {
            // corners always, the rest seeded
            configs.push((1024, 4, true, false));
            configs.push((1 << 20, 4, false, false));
            configs.push((4096, 32, false, false));
            let n = if growth { 5 } else { 9 };
            for _ in 0..n {
                configs.push(*r.pick(&all));
            }
        }
    }
    let mut reference: Option<(String, (u64, usize, bool, bool))> = None;
    let mut ran = 0u64;
    let mut fail = |oracle: &str, site: &str, detail: String| Violation { oracle: oracle.into(), site: site.into(), detail, step: 0, in_rw_tx: false };
    for cfg in &configs {
        let mut c = case.clone();
        c.engine = "seq".into();
        c.steps = Some(steps.clone());
        c.pagesize = cfg.0;
        c.num_pages = cfg.1;
        c.strict = cfg.2;
        c.populate = cfg.3;
        c.extra = Value::Null;
        let name = format!("pagesize={} num_pages={} strict={} populate={}", cfg.0, cfg.1, cfg.2, cfg.3);
        ran += 1;
        *v.counters.entry(format!("pagesize={}", cfg.0)).or_default() += 1;
        match child(&c) {
            Err(e) => {
                v.violation = Some(fail("cfg-signal", "child", format!("under {} the process running the history died: {}", name, e)));
                v.extra_out = json!({"configs": [[cfg.0, cfg.1, cfg.2, cfg.3]], "growth": growth});
                break;
            }
            Ok(o) => {
                if let Some(h) = o.get("harness").and_then(|x| x.as_str()) {
                    v.harness_error = Some(format!("{}: {}", name, h));
                    break;
                }
                let viol = o.get("violation").filter(|x| !x.is_null()).or_else(|| o.get("aborted").filter(|x| !x.is_null()));
                if let Some(x) = viol {
                    v.violation = Some(fail(
                        "cfg-behaviour",
                        &format!("{} @ {}", x["oracle"].as_str().unwrap_or(""), x["site"].as_str().unwrap_or("")),
                        format!("under {}: {}", name, x["detail"].as_str().unwrap_or("")),
                    ));
                    v.extra_out = json!({"configs": [[cfg.0, cfg.1, cfg.2, cfg.3]], "growth": growth});
                    break;
                }
                v.stats.commits += o["commits"].as_u64().unwrap_or(0);
                v.stats.steps += o["steps"].as_u64().unwrap_or(0);
                *v.counters.entry("file_growths".into()).or_default() += o["growths"].as_u64().unwrap_or(0);
                let t = o["trace"].as_str().unwrap_or("").to_string();
                match &reference {
                    None => reference = Some((t, *cfg)),
                    Some((rt, rc)) => {
                        if *rt != t {
                            v.violation = Some(fail(
                                "cfg-transcript",
                                "transcript",
                                format!("the same history returns different values under {} and under pagesize={} num_pages={} strict={} populate={}", name, rc.0, rc.1, rc.2, rc.3),
                            ));
                            v.extra_out = json!({"configs": [[rc.0, rc.1, rc.2, rc.3], [cfg.0, cfg.1, cfg.2, cfg.3]], "growth": growth});
                            break;
                        }
                    }
                }
            }
        }
    }
    // ---- every other value the builder accepts: works, or is refused cleanly
    if v.violation.is_none() && v.harness_error.is_none() && !growth {
        let mut odd: Vec<u64> = match case.extra.get("odd_sizes").and_then(|x| x.as_array()) {
            Some(a) => a.iter().filter_map(|x| x.as_u64()).collect(),
            None => {
                let mut o: Vec<u64> = vec![1025 + r.below(7)];
                for _ in 0..(if thorough { 6 } else { 2 }) {
                    let mut s = r.range(1025, 65535);
                    if s % 8 == 0 {
                        s += 1 + r.below(7);
                    }
                    o.push(s);
                }
                o
            }
        };
        odd.dedup();
        for ps in odd {
            let mut c = case.clone();
            c.engine = "seq".into();
            c.steps = Some(steps.clone());
            c.pagesize = ps;
            c.num_pages = 32;
            c.strict = false;
            c.populate = false;
            c.extra = json!({"odd": true});
            ran += 1;
            match child(&c) {
                Err(e) => {
                    v.violation = Some(fail("cfg-signal", "odd page size", format!("with page size {} (accepted by the builder) the process died: {}", ps, e)));
                    v.extra_out = json!({"odd_sizes": [ps], "configs": []});
                    break;
                }
                Ok(o) => {
                    if let Some(h) = o.get("harness").and_then(|x| x.as_str()) {
                        v.harness_error = Some(format!("page size {}: {}", ps, h));
                        break;
                    }
                    if o.get("refused").map(|x| !x.is_null()).unwrap_or(false) && o["violation"].is_null() {
                        *v.counters.entry("odd_size_refused_cleanly".into()).or_default() += 1;
                        continue;
                    }
                    let viol = o.get("violation").filter(|x| !x.is_null()).or_else(|| o.get("aborted").filter(|x| !x.is_null()));
                    if let Some(x) = viol {
                        v.violation = Some(fail(
                            "cfg-behaviour",
                            &format!("odd: {} @ {}", x["oracle"].as_str().unwrap_or(""), x["site"].as_str().unwrap_or("")),
                            format!("with page size {}: {}", ps, x["detail"].as_str().unwrap_or("")),
                        ));
                        v.extra_out = json!({"odd_sizes": [ps], "configs": []});
                        break;
                    }
                    *v.counters.entry("odd_size_worked".into()).or_default() += 1;
                    if let Some((rt, _)) = &reference {
                        if o["trace"].as_str().unwrap_or("") != rt {
                            v.violation = Some(fail("cfg-transcript", "odd page size", format!("page size {} changes the values the history returns", ps)));
                            v.extra_out = json!({"odd_sizes": [ps], "configs": []});
                            break;
                        }
                    }
                }
            }
        }
    }
    if v.violation.is_none() {
        v.extra_out = json!({"growth": growth, "configurations": configs.iter().map(|c| json!({"pagesize": c.0, "num_pages": c.1, "strict": c.2, "populate": c.3})).collect::<Vec<_>>()});
    }
    v.counters.insert("configs_run".into(), ran);
    if growth {
        *v.counters.entry("growth_histories".into()).or_default() += 1;
    }
    if let Some((t, _)) = &reference {
        v.trace = u64::from_str_radix(t, 16).unwrap_or(0) ^ mix(case.seed, 1);
    }
    if let Some(o) = v.extra_out.as_object_mut() {
        o.insert("growth".into(), json!(growth));
    }
    v
}
