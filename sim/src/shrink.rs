//! Minimise a failing case: drop chunks of steps (ddmin), then single steps, then shrink
//! values, keeping a candidate iff it fails with the same (oracle, site).
use crate::case::{Case, Verdict};
use crate::step::{Blob, Step};

pub fn same_failure(v: &Verdict, oracle: &str, site: &str) -> bool {
    match &v.violation {
        Some(x) => x.oracle == oracle && x.site == site,
        None => false,
    }
}

pub fn shrink(case: &Case, run: &dyn Fn(&Case) -> Verdict, budget: usize) -> (Case, usize) {
    let first = run(case);
    let (oracle, site) = match &first.violation {
        Some(v) => (v.oracle.clone(), v.site.clone()),
        None => return (case.clone(), 1),
    };
    let mut best = case.clone();
    // explicit steps: what was actually issued, truncated after the failing step
    let mut steps: Vec<Step> = if first.issued.is_empty() { case.steps.clone().unwrap_or_default() } else { first.issued.clone() };
    if let Some(v) = &first.violation {
        if v.step + 1 < steps.len() && v.step > 0 {
            let mut c = best.clone();
            let mut t = steps.clone();
            t.truncate(v.step + 1);
            c.steps = Some(t.clone());
            if same_failure(&run(&c), &oracle, &site) {
                steps = t;
            }
        }
    }
    best.steps = Some(steps.clone());
    let mut runs = 2usize;
    let mut try_steps = |cand: Vec<Step>, best: &mut Case, runs: &mut usize| -> bool {
        if *runs >= budget {
            return false;
        }
        let mut c = best.clone();
        c.steps = Some(cand);
        *runs += 1;
        if same_failure(&run(&c), &oracle, &site) {
            *best = c;
            true
        } else {
            false
        }
    };
    // ddmin over chunks
    let mut n = 2usize;
    loop {
        let cur = best.steps.clone().unwrap();
        if cur.len() < 2 || runs >= budget {
            break;
        }
        let chunk = (cur.len() + n - 1) / n;
        let mut reduced = false;
        let mut i = 0;
        while i < cur.len() {
            let mut cand = cur.clone();
            let end = (i + chunk).min(cand.len());
            cand.drain(i..end);
            if try_steps(cand, &mut best, &mut runs) {
                reduced = true;
                break;
            }
            i += chunk;
        }
        if reduced {
            n = (n - 1).max(2);
        } else {
            if chunk == 1 {
                break;
            }
            n = (n * 2).min(cur.len());
        }
    }
    // shrink blobs
    let mut changed = true;
    while changed && runs < budget {
        changed = false;
        let cur = best.steps.clone().unwrap();
        for i in 0..cur.len() {
            if let Step::Put { path, key, val, via } = &cur[i] {
                let l = val.len();
                for nl in [0usize, 1, l / 4, l / 2] {
                    if nl >= l {
                        continue;
                    }
                    let nv = match val {
                        Blob::Pat { tag, .. } => Blob::Pat { tag: *tag, len: nl as u32 },
                        Blob::Raw(v) => Blob::Raw(v[..nl].to_vec()),
                    };
                    let mut cand = best.steps.clone().unwrap();
                    cand[i] = Step::Put { path: path.clone(), key: key.clone(), val: nv, via: *via };
                    if try_steps(cand, &mut best, &mut runs) {
                        changed = true;
                        break;
                    }
                }
            }
        }
    }
    // config simplifications
    for f in 0..4 {
        if runs >= budget {
            break;
        }
        let mut c = best.clone();
        match f {
            3 if c.via_iter => c.via_iter = false,
            0 if c.handle_cache => c.handle_cache = false,
            1 if c.sweep => c.sweep = false,
            2 if c.probe => c.probe = false,
            _ => continue,
        }
        runs += 1;
        if same_failure(&run(&c), &oracle, &site) {
            best = c;
        }
    }
    let last = run(&best);
    best.expect = Some((oracle, site));
    best.trace = Some(last.trace);
    (best, runs + 1)
}
