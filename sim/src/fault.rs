//! FAULT engine (C11). Pass 1 runs the history fault-free and records, per commit, the ordered
//! list of tracked I/O calls. Pass 2 re-executes the history for every (chosen commit, call
//! index, applicable fault kind) with that single fault armed; pairs are sampled. After the
//! faulted commit the history continues (plus three more write transactions and a reopen),
//! all verified against the model from whichever state the database legitimately chose.
use crate::case::{Case, Verdict};
use crate::props;
use crate::rng::{mix, Rng};
use crate::seq::{Engine, Source};
use crate::simos::{self, Action, Call, Fault};
use crate::step::{Blob, Step, Via};
use bumpalo::Bump;
use serde_json::{json, Value};
use std::collections::BTreeMap;

pub fn action_json(a: &Action) -> Value {
    match a {
        Action::Errno(e) => json!({"errno": e}),
        Action::ShortThenErr { num, den, errno } => json!({"short_then_errno": errno, "num": num, "den": den}),
        Action::ShortOnly { num, den } => json!({"short_only": true, "num": num, "den": den}),
        Action::Eintr => json!({"eintr": true}),
        Action::Sticky(e) => json!({"sticky_errno": e}),
    }
}

pub fn action_from(v: &Value) -> Option<Action> {
    if let Some(e) = v.get("errno").and_then(|x| x.as_i64()) {
        return Some(Action::Errno(e as i32));
    }
    if let Some(e) = v.get("sticky_errno").and_then(|x| x.as_i64()) {
        return Some(Action::Sticky(e as i32));
    }
    let num = v.get("num").and_then(|x| x.as_u64()).unwrap_or(1) as u32;
    let den = v.get("den").and_then(|x| x.as_u64()).unwrap_or(2) as u32;
    if let Some(e) = v.get("short_then_errno").and_then(|x| x.as_i64()) {
        return Some(Action::ShortThenErr { num, den, errno: e as i32 });
    }
    if v.get("short_only").is_some() {
        return Some(Action::ShortOnly { num, den });
    }
    if v.get("eintr").is_some() {
        return Some(Action::Eintr);
    }
    None
}

fn action_name(a: &Action) -> String {
    match a {
        Action::Errno(e) => format!("errno{}", e),
        Action::ShortThenErr { .. } => "short-then-error".into(),
        Action::ShortOnly { .. } => "short-only".into(),
        Action::Eintr => "eintr".into(),
        Action::Sticky(e) => format!("sticky-errno{}", e),
    }
}

/// (action, Some(true) = benign, commit must succeed; Some(false) = must fail; None = either)
fn kinds_for(call: Call, r: &mut Rng, ps: u64) -> Vec<(Action, Option<bool>)> {
    match call {
        Call::Write => vec![
            (Action::Errno(libc::EIO), Some(false)),
            (Action::Errno(libc::ENOSPC), Some(false)),
            (Action::Sticky(libc::ENOSPC), Some(false)),
            (Action::ShortThenErr { num: r.range(1, 7) as u32, den: 8, errno: libc::EIO }, Some(false)),
            // a cut inside the first 104 bytes of a page: for the meta page that is inside the
            // header record (bytes 32..104), word by word
            (Action::ShortThenErr { num: 8 * r.range(1, 12) as u32, den: ps as u32, errno: libc::EIO }, Some(false)),
            (Action::Eintr, Some(true)),
            (Action::ShortOnly { num: r.range(1, 7) as u32, den: 8 }, Some(true)),
        ],
        Call::Fsync => vec![(Action::Errno(libc::EIO), Some(false)), (Action::Eintr, Some(true))],
        Call::Fallocate | Call::Ftruncate => vec![(Action::Errno(libc::ENOSPC), Some(false)), (Action::Errno(libc::EFBIG), Some(false))],
        Call::Mmap => vec![(Action::Errno(libc::ENOMEM), Some(false))],
        Call::Lseek => vec![(Action::Errno(libc::EIO), Some(false))],
        _ => vec![],
    }
}

/// three more write transactions (one with a multi-page value) and a reopen
fn aftermath(pagesize: u64, tag0: u32) -> Vec<Step> {
    let p: Vec<Vec<u8>> = vec![b"zz-after".to_vec()];
    let mut v = Vec::new();
    for t in 0..3u32 {
        v.push(Step::Begin { rw: true });
        v.push(Step::GetOrCreate { path: vec![], name: Blob::Raw(p[0].clone()), via: Via::Vec });
        for k in 0..4u32 {
            let len = if t == 1 && k == 0 { pagesize as u32 * 2 + 17 } else { 40 + 60 * k };
            v.push(Step::Put {
                path: p.clone(),
                key: Blob::Raw(format!("a{}-{}", t, k).into_bytes()),
                val: Blob::Pat { tag: tag0 + t * 10 + k, len },
                via: Via::Vec,
            });
        }
        if t == 2 {
            v.push(Step::Delete { path: p.clone(), key: Blob::Raw(b"a1-0".to_vec()) });
        }
        v.push(Step::Commit);
    }
    v.push(Step::Reopen);
    v.push(Step::Begin { rw: true });
    v.push(Step::Put { path: p.clone(), key: Blob::Raw(b"after-reopen".to_vec()), val: Blob::Pat { tag: tag0 + 99, len: 64 }, via: Via::Vec });
    v.push(Step::Commit);
    v
}

pub fn execute(case: &Case) -> Verdict {
    if case.extra.get("fault").is_some() {
        return run_single(case);
    }
    explore(case)
}

fn base_cfg(case: &Case, path: &str) -> crate::seq::EngineCfg {
    let mut e = props::engine_cfg(case, path);
    e.verify_commit = true;
    e.fsck_commit = true;
    e.final_reopen_verify = true;
    e.oracles = vec!["fault-panic", "fault-result", "fault-state", "fault-fsck", "fault-aftermath"];
    e
}

/// One re-execution with a given plan. `steps` is explicit.
fn one(case: &Case, steps: Vec<Step>, commit: u32, plan: Vec<Fault>, expect: Option<bool>) -> Verdict {
    one_more(case, steps, commit, plan, expect, Vec::new())
}

fn one_more(case: &Case, steps: Vec<Step>, commit: u32, plan: Vec<Fault>, expect: Option<bool>, more: Vec<(u32, Vec<Fault>)>) -> Verdict {
    let case = case.clone();
    let dir = props::fresh_dir("fault");
    let dir2 = dir.clone();
    let r = props::on_fresh_thread(case.seed, dir, move || {
        let path = format!("{}/db", dir2);
        let arena = Bump::new();
        let mut ecfg = base_cfg(&case, &path);
        ecfg.fault = Some((commit, plan, expect));
        ecfg.more_faults = more;
        let eng = Engine::new(ecfg, Source::List(steps.into_iter().collect()), &arena);
        let out = eng.run();
        let mut v = Verdict {
            violation: out.violation,
            aborted: out.aborted,
            skipped: out.skipped,
            trace: out.trace,
            issued: out.issued,
            stats: out.stats,
            sim_events: simos::total_calls(),
            ..Default::default()
        };
        for (_, call, act) in simos::fired() {
            *v.counters.entry(format!("{}:{}", call.name(), action_name(&act))).or_default() += 1;
        }
        if let Err(e) = simos::shadow_matches(&path) {
            v.harness_error = Some(format!("SimOS shadow differs from the real file: {}", e));
        }
        if let Some(h) = crate::seq::HARNESS_FAULT.with(|p| p.borrow_mut().take()) {
            v.harness_error = Some(format!("the harness itself panicked: {}", h));
        }
        v
    });
    match r {
        Ok(v) => v,
        Err(e) => Verdict { harness_error: Some(e), ..Default::default() },
    }
}

fn plan_json(commit: u32, plan: &[Fault], expect: Option<bool>) -> Value {
    plan_json_more(commit, plan, expect, &[])
}

fn plan_json_more(commit: u32, plan: &[Fault], expect: Option<bool>, more: &[(u32, Vec<Fault>)]) -> Value {
    json!({"fault": {
        "commit": commit,
        "expect_ok": expect,
        "plan": plan.iter().map(|f| json!({"nth": f.nth, "action": action_json(&f.action)})).collect::<Vec<_>>(),
        "then": more.iter().map(|(c, p)| json!({"commit": c, "plan": p.iter().map(|f| json!({"nth": f.nth, "action": action_json(&f.action)})).collect::<Vec<_>>()})).collect::<Vec<_>>(),
    }})
}

fn parse_plan(a: Option<&Value>) -> Vec<Fault> {
    a.and_then(|p| p.as_array())
        .map(|a| a.iter().filter_map(|x| Some(Fault { nth: x.get("nth")?.as_u64()?, action: action_from(x.get("action")?)? })).collect())
        .unwrap_or_default()
}

fn run_single(case: &Case) -> Verdict {
    let f = &case.extra["fault"];
    let commit = f.get("commit").and_then(|x| x.as_u64()).unwrap_or(1) as u32;
    let expect = f.get("expect_ok").and_then(|x| x.as_bool());
    let plan: Vec<Fault> = parse_plan(f.get("plan"));
    let steps = case.steps.clone().unwrap_or_default();
    let more: Vec<(u32, Vec<Fault>)> = f
        .get("then")
        .and_then(|t| t.as_array())
        .map(|a| a.iter().map(|x| (x.get("commit").and_then(|c| c.as_u64()).unwrap_or(0) as u32, parse_plan(x.get("plan")))).collect())
        .unwrap_or_default();
    let mut v = one_more(case, steps, commit, plan.clone(), expect, more.clone());
    v.extra_out = plan_json_more(commit, &plan, expect, &more);
    v
}

fn explore(case: &Case) -> Verdict {
    // ---- pass 1: fault-free, record calls per commit
    let c1 = case.clone();
    let dir = props::fresh_dir("fault");
    let dir2 = dir.clone();
    let base = props::on_fresh_thread(case.seed, dir, move || {
        let path = format!("{}/db", dir2);
        let arena = Bump::new();
        let mut ecfg = base_cfg(&c1, &path);
        ecfg.record_calls = true;
        ecfg.oracles = vec![];
        let src = match &c1.steps {
            Some(s) => Source::List(s.iter().cloned().collect()),
            None => Source::Gen(Box::new(props::gen_for(&c1.property, &c1))),
        };
        Engine::new(ecfg, src, &arena).run()
    });
    let base = match base {
        Ok(b) => b,
        Err(e) => return Verdict { harness_error: Some(e), ..Default::default() },
    };
    let mut v = Verdict { trace: base.trace, issued: base.issued.clone(), stats: base.stats.clone(), aborted: base.aborted.clone(), ..Default::default() };
    if base.aborted.is_some() || base.violation.is_some() {
        // the fault-free history itself fails some other property's oracle: nothing to claim
        return v;
    }
    // explicit steps for pass 2: what pass 1 issued, plus the aftermath
    let mut steps = base.issued.clone();
    // close any transaction left open by truncation
    steps.push(Step::Drop);
    steps.extend(aftermath(case.pagesize, 900_000));
    v.issued = steps.clone();
    let thorough = case.extra.get("thorough").and_then(|x| x.as_bool()).unwrap_or(false);
    let mut r = Rng::new(mix(case.seed, 0xFA17));
    // choose commits: biased to growth, multi-page writes, first after a reopen
    let mut scored: Vec<(u64, usize)> = base
        .commits
        .iter()
        .enumerate()
        .map(|(i, c)| {
            let mut s = r.below(100);
            if c.calls.iter().any(|k| matches!(k, Call::Fallocate | Call::Mmap)) {
                s += 300;
            }
            if c.overflow > 0 {
                s += 60;
            }
            s += (c.calls.len() as u64).min(60);
            (s, i)
        })
        .collect();
    scored.sort_by(|a, b| b.0.cmp(&a.0));
    let cap = if thorough { 5 } else { 2 };
    let mut counters: BTreeMap<String, u64> = BTreeMap::new();
    let mut total = 0u64;
    let mut merge = |v1: &Verdict, counters: &mut BTreeMap<String, u64>| {
        for (k, n) in &v1.counters {
            *counters.entry(k.clone()).or_default() += n;
        }
        for (k, n) in &v1.stats.probes {
            if k.starts_with("fault_left") {
                *counters.entry(k.to_string()).or_default() += n;
            }
        }
    };
    for (_, ci) in scored.into_iter().take(cap) {
        let rec = &base.commits[ci];
        // a commit with hundreds of I/O calls (a bulk load) is explored at a sample of its call
        // indices: the first ten, the last thirty (free-list page, data sync, header write,
        // final sync live there) and a seeded selection in between
        let limit = if thorough { 400 } else { 70 };
        let ncalls = rec.calls.len();
        let chosen_idx: Vec<usize> = if ncalls <= limit {
            (0..ncalls).collect()
        } else {
            let mut c: Vec<usize> = (0..10).chain(ncalls - 30..ncalls).collect();
            while c.len() < limit {
                let i = 10 + r.below((ncalls - 40) as u64) as usize;
                if !c.contains(&i) {
                    c.push(i);
                }
            }
            c.sort();
            *counters.entry("commits_explored_at_sampled_call_indices".into()).or_default() += 1;
            c
        };
        for idx in chosen_idx {
            let call = &rec.calls[idx];
            for (action, expect) in kinds_for(*call, &mut r, case.pagesize) {
                let plan = vec![Fault { nth: idx as u64, action }];
                let v1 = one(case, steps.clone(), rec.n, plan.clone(), expect);
                total += 1;
                merge(&v1, &mut counters);
                v.sim_events += v1.sim_events;
                if v1.harness_error.is_some() || v1.violation.is_some() {
                    let mut out = v1;
                    out.issued = steps.clone();
                    out.extra_out = plan_json(rec.n, &plan, expect);
                    out.counters = counters;
                    out.counters.insert("fault_runs".into(), total);
                    out.stats = base.stats.clone();
                    return out;
                }
            }
        }
        // sampled pairs: two faults in this commit, or one here and one in the next commit's
        // first calls (armed as a later index: the counter keeps running only inside a commit,
        // so the second is expressed against the same commit)
        let n_pairs = if thorough { 24 } else { 6 };
        for _ in 0..n_pairs {
            if rec.calls.len() < 2 {
                break;
            }
            let a = r.below(rec.calls.len() as u64) as usize;
            let b = r.below(rec.calls.len() as u64) as usize;
            if a == b {
                continue;
            }
            let (a, b) = (a.min(b), a.max(b));
            let ka = kinds_for(rec.calls[a], &mut r, case.pagesize);
            let kb = kinds_for(rec.calls[b], &mut r, case.pagesize);
            if ka.is_empty() || kb.is_empty() {
                continue;
            }
            // first fault benign (so the commit goes on), second arbitrary
            let benign: Vec<&(Action, Option<bool>)> = ka.iter().filter(|k| k.1 == Some(true)).collect();
            if benign.is_empty() {
                continue;
            }
            let fa = (*r.pick(&benign)).clone();
            let fb = r.pick(&kb).clone();
            let plan = vec![Fault { nth: a as u64, action: fa.0 }, Fault { nth: b as u64, action: fb.0 }];
            // a short write shifts later call indexes, so the pair's verdict is not predicted
            let v1 = one(case, steps.clone(), rec.n, plan.clone(), None);
            total += 1;
            *counters.entry("pairs".into()).or_default() += 1;
            merge(&v1, &mut counters);
            if v1.harness_error.is_some() || v1.violation.is_some() {
                let mut out = v1;
                out.issued = steps.clone();
                out.extra_out = plan_json(rec.n, &plan, None);
                out.counters = counters;
                out.stats = base.stats.clone();
                return out;
            }
        }
    }
    // sampled pairs across adjacent commits: commit n fails, commit n+1 is hit as well
    let n_adj = if thorough { 16 } else { 5 };
    for _ in 0..n_adj {
        if base.commits.len() < 2 {
            break;
        }
        let i = r.below(base.commits.len() as u64 - 1) as usize;
        let (a, b) = (&base.commits[i], &base.commits[i + 1]);
        if a.calls.is_empty() || b.calls.is_empty() {
            continue;
        }
        let ia = r.below(a.calls.len() as u64) as usize;
        let ib = r.below(b.calls.len() as u64) as usize;
        let ka: Vec<(Action, Option<bool>)> = kinds_for(a.calls[ia], &mut r, case.pagesize).into_iter().filter(|k| k.1 == Some(false)).collect();
        let kb = kinds_for(b.calls[ib], &mut r, case.pagesize);
        if ka.is_empty() || kb.is_empty() {
            continue;
        }
        let mut fa = r.pick(&ka).clone();
        let mut fb = r.pick(&kb).clone();
        let mut ib = ib;
        if r.chance(1, 3) {
            // the disk fills up during commit n and is still full for all of commit n+1
            fa = (Action::Sticky(libc::ENOSPC), Some(false));
            fb = (Action::Sticky(libc::ENOSPC), Some(false));
            ib = 0;
            *counters.entry("disk_full_across_two_commits".into()).or_default() += 1;
        }
        let plan = vec![Fault { nth: ia as u64, action: fa.0 }];
        let more = vec![(b.n, vec![Fault { nth: ib as u64, action: fb.0 }])];
        let v1 = one_more(case, steps.clone(), a.n, plan.clone(), fa.1, more.clone());
        total += 1;
        *counters.entry("adjacent_commit_pairs".into()).or_default() += 1;
        merge(&v1, &mut counters);
        if v1.harness_error.is_some() || v1.violation.is_some() {
            let mut out = v1;
            out.issued = steps.clone();
            out.extra_out = plan_json_more(a.n, &plan, fa.1, &more);
            out.counters = counters;
            out.stats = base.stats.clone();
            return out;
        }
    }
    counters.insert("fault_runs".into(), total);
    v.counters = counters;
    if let Some(rec) = base.commits.last() {
        if let Some(call) = rec.calls.last() {
            v.extra_out = json!({"sample_fault": {"commit": rec.n, "call_index": rec.calls.len() - 1, "call": call.name(), "calls_in_this_commit": rec.calls.iter().map(|c| c.name()).collect::<Vec<_>>()}});
        }
    }
    v
}
