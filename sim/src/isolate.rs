//! Executing a case in a child process, so that a run that kills its process (abort on a
//! misaligned dereference, segmentation fault on a stale map, stack overflow) is an ordinary
//! verdict the shrinker can work with. The child streams the steps it issues (and, on the
//! shuttle side, the scheduling decisions it takes) to a side file before acting on them, so
//! the explicit history up to the fatal step is known even though the child never reports back.
use crate::case::{Case, Verdict};
use crate::props;
use crate::seq::Violation;
use crate::step::Step;
use serde_json::{json, Value};
use std::io::Write;
use std::os::unix::process::ExitStatusExt;
use std::process::{Command, Stdio};
use std::sync::atomic::{AtomicU64, Ordering};

static COUNTER: AtomicU64 = AtomicU64::new(0);

fn side_file(tag: &str) -> String {
    let n = COUNTER.fetch_add(1, Ordering::SeqCst);
    format!("/dev/shm/jsim-side-{}-{}-{}", std::process::id(), tag, n)
}

fn last_words(stderr: &[u8]) -> String {
    let t = String::from_utf8_lossy(stderr);
    let l: Vec<&str> = t.lines().filter(|l| !l.trim().is_empty() && !l.starts_with("note:") && !l.starts_with("HARNESS PANIC")).collect();
    let tail = l[l.len().saturating_sub(3)..].join(" / ");
    tail.chars().take(400).collect()
}

fn died(sig: i32, what: &str, stderr: &[u8]) -> Violation {
    let lw = last_words(stderr);
    Violation {
        oracle: "process-died".into(),
        site: format!("signal {}", sig),
        detail: format!("executing the run killed its process with signal {} ({}){}", sig, what, if lw.is_empty() { String::new() } else { format!("; last words: {}", lw) }),
        step: 0,
        in_rw_tx: false,
    }
}

fn signal_name(sig: i32) -> &'static str {
    match sig {
        4 => "SIGILL",
        6 => "SIGABRT: abort, e.g. a misaligned or null dereference trapped by the checked build, or a panic while panicking",
        7 => "SIGBUS: access beyond the end of the mapped file",
        8 => "SIGFPE",
        9 => "SIGKILL: killed, e.g. a runaway allocation",
        11 => "SIGSEGV: access to unmapped memory, or stack overflow",
        _ => "signal",
    }
}

/// Run one case of a sequential engine in a child `jsim exec-case`.
pub fn execute_isolated(case: &Case) -> Verdict {
    if case.engine == "shuttle" {
        return execute_isolated_sh(case).0;
    }
    let log = side_file("steps");
    let exe = match std::env::current_exe() {
        Ok(e) => e,
        Err(e) => return Verdict { harness_error: Some(format!("current_exe: {}", e)), ..Default::default() },
    };
    let ch = Command::new(exe).arg("exec-case").env("JSIM_STEPLOG", &log).env("JSIM_VERBOSE_PANICS", "1").stdin(Stdio::piped()).stdout(Stdio::piped()).stderr(Stdio::piped()).spawn();
    let mut ch = match ch {
        Ok(c) => c,
        Err(e) => return Verdict { harness_error: Some(format!("spawn: {}", e)), ..Default::default() },
    };
    {
        let mut si = ch.stdin.take().unwrap();
        let _ = si.write_all(serde_json::to_string(&case.to_json()).unwrap().as_bytes());
    }
    let pid = ch.id();
    let out = match ch.wait_with_output() {
        Ok(o) => o,
        Err(e) => return Verdict { harness_error: Some(format!("wait: {}", e)), ..Default::default() },
    };
    let logged = std::fs::read_to_string(&log).unwrap_or_default();
    let _ = std::fs::remove_file(&log);
    // a dead child leaves its scratch directory behind
    let _ = std::fs::remove_dir_all(format!("/dev/shm/jammdb-verif.{}", pid));
    if let Some(sig) = out.status.signal() {
        // steps of the first engine run only (searching engines re-execute the history)
        let mut steps: Vec<Step> = Vec::new();
        for l in logged.lines() {
            if l.starts_with("#run") {
                if !steps.is_empty() {
                    break;
                }
                continue;
            }
            if let Some(s) = serde_json::from_str::<Value>(l).ok().and_then(|v| Step::from_json(&v)) {
                steps.push(s);
            }
        }
        let mut v = Verdict { violation: Some(died(sig, signal_name(sig), &out.stderr)), ..Default::default() };
        if let Some(x) = v.violation.as_mut() {
            x.step = steps.len().saturating_sub(1);
        }
        v.issued = steps;
        return v;
    }
    match serde_json::from_slice::<Value>(&out.stdout) {
        Ok(o) => {
            let mut v = crate::worker::verdict_from(&o);
            if let Some(a) = o.get("issued").and_then(|x| x.as_array()) {
                v.issued = a.iter().filter_map(Step::from_json).collect();
            }
            v
        }
        Err(e) => Verdict { harness_error: Some(format!("child output: {}", e)), ..Default::default() },
    }
}

/// `jsim exec-case`: case JSON on stdin, verdict JSON (with the issued steps) on stdout.
pub fn exec_case_main() -> i32 {
    let mut s = String::new();
    use std::io::Read;
    let _ = std::io::stdin().read_to_string(&mut s);
    let case = match serde_json::from_str::<Value>(&s).ok().and_then(|v| Case::from_json(&v)) {
        Some(c) => c,
        None => return 3,
    };
    let v = props::execute(&case);
    crate::simos::bypass(|| {
        let _ = std::fs::remove_dir_all(props::scratch_root());
    });
    let mut o = crate::worker::verdict_json(&v);
    o["issued"] = Value::Array(v.issued.iter().map(|x| x.to_json()).collect());
    println!("{}", o);
    0
}

/// Run one shuttle case in a child `jsim-sh oneshot`; returns the verdict and, when the child
/// died, the scheduling decisions it had taken.
pub fn execute_isolated_sh(case: &Case) -> (Verdict, Vec<u32>) {
    let log = side_file("sched");
    let ch = Command::new(props::sh_exe()).arg("oneshot").env("JSIM_SCHEDLOG", &log).env("JSIM_VERBOSE_PANICS", "1").stdin(Stdio::piped()).stdout(Stdio::piped()).stderr(Stdio::piped()).spawn();
    let mut ch = match ch {
        Ok(c) => c,
        Err(e) => return (Verdict { harness_error: Some(format!("spawn: {}", e)), ..Default::default() }, vec![]),
    };
    {
        let mut si = ch.stdin.take().unwrap();
        let _ = si.write_all(serde_json::to_string(&case.to_json()).unwrap().as_bytes());
    }
    let pid = ch.id();
    let out = match ch.wait_with_output() {
        Ok(o) => o,
        Err(e) => return (Verdict { harness_error: Some(format!("wait: {}", e)), ..Default::default() }, vec![]),
    };
    let logged = std::fs::read_to_string(&log).unwrap_or_default();
    let _ = std::fs::remove_file(&log);
    let _ = std::fs::remove_dir_all(format!("/dev/shm/jammdb-verif.{}", pid));
    // the decisions of the last execution in the log (the set-up runs in executions of its own)
    let mut list: Vec<u32> = Vec::new();
    for l in logged.lines() {
        if l.starts_with("#exec") {
            list.clear();
        } else if let Ok(t) = l.trim().parse::<u32>() {
            list.push(t);
        }
    }
    if let Some(sig) = out.status.signal() {
        return (Verdict { violation: Some(died(sig, signal_name(sig), &out.stderr)), ..Default::default() }, list);
    }
    match serde_json::from_slice::<Value>(&out.stdout) {
        Ok(o) => (crate::worker::verdict_from(&o), list),
        Err(e) => (Verdict { harness_error: Some(format!("child output: {}", e)), ..Default::default() }, list),
    }
}

fn same(v: &Verdict, site: &str) -> bool {
    matches!(&v.violation, Some(x) if x.oracle == "process-died" && x.site == site)
}

/// Minimise a shuttle run that kills its process: pin the schedule as an explicit list of
/// task choices, cut its tail, then remove preemptions one at a time, keeping a candidate iff
/// the child dies with the same signal.
/// Minimisation re-executes the dying run many times; a run that takes long to die (a runaway
/// allocation that ends in an out-of-memory abort, say) gets proportionally fewer attempts.
fn time_budget(budget: usize, one_run: std::time::Duration) -> usize {
    let per = one_run.as_secs_f64().max(0.005);
    budget.min((240.0 / per) as usize).max(3)
}

pub fn minimise_died_sh(case: &Case, budget: usize) -> Option<(Case, Violation, usize)> {
    let t0 = std::time::Instant::now();
    let (first, list) = execute_isolated_sh(case);
    let budget = time_budget(budget, t0.elapsed());
    let viol = first.violation.clone()?;
    if viol.oracle != "process-died" {
        return None;
    }
    let site = viol.site.clone();
    let with_list = |l: &[u32]| -> Case {
        let mut c = case.clone();
        if !c.extra.is_object() {
            c.extra = json!({});
        }
        c.extra["sched"] = json!({"kind": "list", "list": l});
        c
    };
    let mut runs = 1usize;
    let mut list = list;
    if list.is_empty() || !same(&execute_isolated_sh(&with_list(&list)).0, &site) {
        // the explicit list does not reproduce the death: keep the seeded form
        let mut c = case.clone();
        c.expect = Some(("process-died".into(), site));
        return Some((c, viol, runs + 1));
    }
    runs += 1;
    // 1. truncate the tail (afterwards: no more preemptions)
    let (mut lo, mut hi) = (0usize, list.len());
    while lo < hi && runs < budget {
        let mid = (lo + hi) / 2;
        runs += 1;
        if same(&execute_isolated_sh(&with_list(&list[..mid])).0, &site) {
            hi = mid;
        } else {
            lo = mid + 1;
        }
    }
    if same(&execute_isolated_sh(&with_list(&list[..hi])).0, &site) {
        list.truncate(hi);
    }
    runs += 1;
    // 2. remove preemptions one at a time
    let mut i = 1;
    while i < list.len() && runs < budget {
        if list[i] != list[i - 1] && list[i] != u32::MAX {
            let mut l2 = list.clone();
            l2[i] = u32::MAX;
            runs += 1;
            if same(&execute_isolated_sh(&with_list(&l2)).0, &site) {
                list = l2;
            }
        }
        i += 1;
    }
    let mut best = with_list(&list);
    best.expect = Some(("process-died".into(), site));
    Some((best, viol, runs))
}

/// Minimise a sequential run that kills its process: the ordinary shrinker over a child-process
/// executor.
pub fn minimise_died_seq(case: &Case, budget: usize) -> Option<(Case, Violation, usize)> {
    let t0 = std::time::Instant::now();
    let first = execute_isolated(case);
    let budget = time_budget(budget, t0.elapsed());
    let viol = first.violation.clone()?;
    if viol.oracle != "process-died" {
        return None;
    }
    let (small, runs) = crate::shrink::shrink(case, &|c| execute_isolated(c), budget);
    let last = execute_isolated(&small);
    let v = last.violation.filter(|x| x.oracle == "process-died").unwrap_or(viol);
    Some((small, v, runs))
}
