//! Seeded swarm workload generator, shape-aware. One PRNG decides the run's configuration and
//! then every step. Generation is interleaved with execution (it looks at the model and at the
//! tree shape FSCK reported after the last commit); the steps actually issued are recorded
//! explicitly, so a replay never needs the generator.
use crate::fsck::Shape;
use crate::model::{Entry, MBucket, Path};
use crate::rng::Rng;
use crate::step::{Blob, BoundKind, Step, Via};
use std::collections::VecDeque;

#[derive(Clone, Debug)]
pub struct GenCfg {
    pub nkeys: u32,
    pub key_style: u8,
    pub huge_key: bool,
    pub empty_key: bool,
    pub max_depth: u32,
    pub n_bucket_names: u32,
    pub txs: u32,
    pub tx_len: (u32, u32),
    pub p_bulk: u32,       // /100 chance a write tx is a bulk load
    pub bulk_len: (u32, u32),
    pub p_drop: u32,       // /100
    pub p_reopen: u32,     // /100 after a tx
    pub p_ro: u32,         // /100 a tx is read-only
    pub p_shape: u32,      // /100 a write tx starts with a shape-targeted macro
    pub p_bad: u32,        // /100 an op is aimed at a missing / wrong-kind target
    pub w_val: [u32; 6],   // value size classes
    pub w_op: [u32; 14],
    pub pagesize: u64,
    pub readers: bool,
    pub max_readers: u32,
    pub ro_mutators: bool, // C06: try mutators through read-only transactions
    pub delete_heavy: bool,
    /// make every commit change the logical state (a unique marker is written first)
    pub marker: bool,
    /// now and then a value of 9-12 MiB
    pub huge_value: bool,
    /// /100 chance a write tx creates a few dozen sibling buckets under one parent, so that
    /// whole leaves consist of bucket entries
    pub p_many_buckets: u32,
    /// C06: one reopen in three is preceded by media damage to the non-current header page
    pub damage_on_reopen: bool,
    /// one reopen in three is preceded by a re-stamp of both headers in the legacy format
    pub legacy_restamp: bool,
    /// the first transaction loads more than 2^16 entries into one bucket (one leaf node of the
    /// transaction holds them all until commit) and then works on the entries beyond 2^16
    pub giant_tx: bool,
    /// /100 chance a write tx fills (or, if it exists, deletes) a bucket of a few hundred pages:
    /// after the deletion the free list is longer than one page and shrinks slowly
    pub p_big_free: u32,
}

impl GenCfg {
    pub fn draw(r: &mut Rng, pagesize: u64) -> GenCfg {
        let style = r.below(6) as u8;
        let mut w_val = [2, 6, 8, 4, 2, 1];
        // swarm: knock out some value classes
        for w in w_val.iter_mut() {
            if r.chance(1, 4) {
                *w = 0;
            }
        }
        if w_val.iter().all(|x| *x == 0) {
            w_val[1] = 1;
        }
        // ops: put delete get get_kv create getorcreate getbucket delbucket nextint scan seek range buckets kvpairs
        let mut w_op = [30, 14, 6, 3, 4, 3, 2, 3, 2, 3, 3, 3, 1, 1];
        for (i, w) in w_op.iter_mut().enumerate() {
            if i > 0 && r.chance(1, 5) {
                *w = 0;
            }
        }
        let delete_heavy = r.chance(1, 4);
        if delete_heavy {
            w_op[1] = 30;
            w_op[7] = 6;
        }
        GenCfg {
            nkeys: *r.pick(&[6, 12, 24, 48, 64, 96]),
            key_style: style,
            huge_key: r.chance(1, 6),
            empty_key: r.chance(1, 3),
            max_depth: r.below(4) as u32,
            n_bucket_names: r.range(1, 5) as u32,
            txs: r.range(2, 12) as u32,
            tx_len: (1, *r.pick(&[4, 10, 20, 40])),
            p_bulk: *r.pick(&[0, 10, 25, 50]),
            bulk_len: (20, *r.pick(&[40, 80, 150, 300])),
            p_drop: *r.pick(&[0, 5, 15, 40]),
            p_reopen: *r.pick(&[0, 5, 20, 50]),
            p_ro: *r.pick(&[0, 5, 15]),
            p_shape: *r.pick(&[0, 20, 50, 80]),
            p_bad: *r.pick(&[0, 3, 10]),
            w_val,
            w_op,
            pagesize,
            readers: false,
            max_readers: 0,
            ro_mutators: false,
            delete_heavy,
            marker: false,
            huge_value: false,
            p_many_buckets: *r.pick(&[0, 0, 10, 30]),
            damage_on_reopen: false,
            legacy_restamp: false,
            giant_tx: false,
            p_big_free: *r.pick(&[0, 0, 12, 25]),
        }
    }
}

pub struct GenCtx<'a> {
    pub committed: &'a MBucket,
    pub view: &'a MBucket,
    pub tx: Option<bool>,
    pub shape: Option<&'a Shape>,
    pub n_readers: usize,
}

pub struct Gen {
    pub cfg: GenCfg,
    pub r: Rng,
    queue: VecDeque<Step>,
    tag: u32,
    txs_done: u32,
    steps_left_in_tx: u32,
    finished: bool,
    /// the bucket and key of the previous key-level operation: one operation in six goes to
    /// the same key again (put-put, put-delete, delete-put, put-get: what applications do)
    last: Option<(Path, Blob)>,
    pub macros_used: std::collections::BTreeMap<&'static str, u64>,
}

impl Gen {
    pub fn new(seed: u64, pagesize: u64) -> Gen {
        let mut r = Rng::new(seed);
        let cfg = GenCfg::draw(&mut r, pagesize);
        Gen { cfg, r, queue: VecDeque::new(), tag: 1, txs_done: 0, steps_left_in_tx: 0, finished: false, last: None, macros_used: Default::default() }
    }

    pub fn with_cfg(seed: u64, cfg: GenCfg) -> Gen {
        let r = Rng::new(seed ^ 0x1234_5678_9abc);
        Gen { cfg, r, queue: VecDeque::new(), tag: 1, txs_done: 0, steps_left_in_tx: 0, finished: false, last: None, macros_used: Default::default() }
    }

    pub fn key_bytes(&self, i: u32) -> Vec<u8> {
        key_bytes(&self.cfg, i)
    }

    fn fresh_tag(&mut self) -> u32 {
        self.tag += 1;
        self.tag
    }

    fn val(&mut self) -> Blob {
        let ps = self.cfg.pagesize as u32;
        if self.cfg.huge_value && self.r.chance(1, 400) {
            // more than one growth step in a single commit
            let tag = self.fresh_tag();
            return Blob::Pat { tag, len: (9 << 20) + self.r.below(3 << 20) as u32 };
        }
        let c = self.r.weighted(&self.cfg.w_val);
        let len = match c {
            0 => 0,
            1 => self.r.range(1, 16) as u32,
            2 => self.r.range(30, 100) as u32,
            3 => ps / 4 + self.r.below(40) as u32 - 20,
            4 => ps - 100 + self.r.below(200) as u32,
            _ => ps * self.r.range(2, 5) as u32 + self.r.below(64) as u32,
        };
        let tag = self.fresh_tag();
        Blob::Pat { tag, len }
    }

    fn pick_key(&mut self) -> Blob {
        let i = self.r.below(self.cfg.nkeys as u64) as u32;
        Blob::Raw(self.key_bytes(i))
    }

    fn bucket_name(&mut self) -> Blob {
        if self.r.chance(1, 10) {
            // collide with the key universe on purpose
            return self.pick_key();
        }
        let i = self.r.below(self.cfg.n_bucket_names as u64) as u32;
        Blob::Raw(format!("B{}", i).into_bytes())
    }

    fn via(&mut self) -> Via {
        *self.r.pick(&[Via::Vec, Via::Vec, Via::Slice, Via::Bytes, Via::Str, Via::String])
    }

    /// an existing key of the bucket at `path` in `view` (any kind), if any
    fn existing(&mut self, view: &MBucket, path: &Path, want_kv: Option<bool>) -> Option<Vec<u8>> {
        let b = view.resolve(path).ok()?;
        let c: Vec<&Vec<u8>> = b
            .entries
            .iter()
            .filter(|(_, e)| match want_kv {
                None => true,
                Some(true) => matches!(e, Entry::Kv(_)),
                Some(false) => matches!(e, Entry::Sub(_)),
            })
            .map(|(k, _)| k)
            .collect();
        if c.is_empty() {
            None
        } else {
            Some((*self.r.pick(&c)).clone())
        }
    }

    fn pick_path(&mut self, view: &MBucket, non_root: bool) -> Option<Path> {
        let paths: Vec<Path> = view.all_paths().into_iter().filter(|p| !(non_root && p.is_empty())).collect();
        if paths.is_empty() {
            None
        } else {
            Some(self.r.pick(&paths).clone())
        }
    }

    pub fn next(&mut self, ctx: &GenCtx) -> Option<Step> {
        if let Some(s) = self.queue.pop_front() {
            return Some(s);
        }
        if self.finished {
            return None;
        }
        match ctx.tx {
            None => {
                if self.txs_done >= self.cfg.txs {
                    self.finished = true;
                    return None;
                }
                if self.cfg.readers {
                    // reader management between transactions
                    let c = self.r.below(100);
                    if c < 25 && (ctx.n_readers as u32) < self.cfg.max_readers {
                        return Some(Step::OpenReader);
                    }
                    if c < 45 && ctx.n_readers > 0 {
                        return Some(Step::CloseReader { idx: self.r.below(ctx.n_readers as u64) as u32 });
                    }
                    // the built-in consistency check is one more reader that comes and goes
                    if c < 50 && ctx.n_readers > 0 {
                        return Some(Step::Check);
                    }
                }
                if self.txs_done > 0 && self.r.chance(self.cfg.p_reopen as u64, 100) && ctx.n_readers == 0 {
                    self.txs_done += 0;
                    // a reopen does not count as a transaction
                    if self.r.chance(1, 2) {
                        if self.cfg.legacy_restamp && self.r.chance(1, 3) {
                            self.queue.push_back(Step::Reopen);
                            return Some(Step::RestampLegacy);
                        }
                        if self.cfg.damage_on_reopen && self.r.chance(1, 3) {
                            self.queue.push_back(Step::Reopen);
                            return Some(Step::DamageOlderHeader { kind: self.r.below(5) as u8 });
                        }
                        return Some(Step::Reopen);
                    }
                }
                self.txs_done += 1;
                let ro = self.r.chance(self.cfg.p_ro as u64, 100);
                if ro {
                    self.steps_left_in_tx = self.r.range(1, 8) as u32;
                    return Some(Step::Begin { rw: false });
                }
                if self.cfg.giant_tx && self.txs_done == 1 {
                    self.steps_left_in_tx = 0;
                    self.plan_giant();
                    return Some(Step::Begin { rw: true });
                }
                let bulk = self.r.chance(self.cfg.p_bulk as u64, 100) || (self.txs_done == 1 && self.r.chance(1, 2));
                if self.r.chance(self.cfg.p_big_free as u64, 100) {
                    self.steps_left_in_tx = 0;
                    self.plan_big_free(ctx.committed);
                } else if self.r.chance(self.cfg.p_many_buckets as u64, 100) {
                    self.steps_left_in_tx = 0;
                    self.plan_many_buckets(ctx.committed);
                } else if bulk {
                    self.steps_left_in_tx = 0;
                    self.plan_bulk(ctx.committed);
                } else {
                    self.steps_left_in_tx = self.r.range(self.cfg.tx_len.0 as u64, self.cfg.tx_len.1 as u64) as u32;
                    if self.r.chance(self.cfg.p_shape as u64, 100) {
                        if let Some(sh) = ctx.shape {
                            self.plan_shape(sh, ctx.committed);
                        }
                    }
                }
                Some(Step::Begin { rw: true })
            }
            Some(rw) => {
                if self.steps_left_in_tx == 0 {
                    if !rw {
                        return Some(Step::Drop);
                    }
                    if self.r.chance(self.cfg.p_drop as u64, 100) {
                        return Some(Step::Drop);
                    }
                    if self.cfg.marker {
                        let tag = self.fresh_tag();
                        self.queue.push_back(Step::Put {
                            path: vec![b"zz-m".to_vec()],
                            key: Blob::Raw(b"marker".to_vec()),
                            val: Blob::Pat { tag, len: 12 },
                            via: Via::Vec,
                        });
                        self.queue.push_back(Step::Commit);
                        return Some(Step::GetOrCreate { path: vec![], name: Blob::Raw(b"zz-m".to_vec()), via: Via::Vec });
                    }
                    return Some(Step::Commit);
                }
                if self.cfg.readers && rw {
                    // readers may come and go while the writer is open
                    let c = self.r.below(100);
                    if c < 6 && (ctx.n_readers as u32) < self.cfg.max_readers {
                        return Some(Step::OpenReader);
                    }
                    if c < 10 && ctx.n_readers > 0 {
                        return Some(Step::CloseReader { idx: self.r.below(ctx.n_readers as u64) as u32 });
                    }
                }
                self.steps_left_in_tx -= 1;
                Some(self.op(ctx.view, rw))
            }
        }
    }

    fn plan_bulk(&mut self, committed: &MBucket) {
        *self.macros_used.entry("bulk").or_default() += 1;
        let n = self.r.range(self.cfg.bulk_len.0 as u64, self.cfg.bulk_len.1 as u64) as u32;
        // into an existing non-root bucket or a new one
        let mut path = match self.pick_path(committed, true) {
            Some(p) if self.r.chance(2, 3) => p,
            _ => {
                let name = self.bucket_name();
                let via = self.via();
                self.queue.push_back(Step::GetOrCreate { path: vec![], name: name.clone(), via });
                vec![name.bytes()]
            }
        };
        if self.cfg.max_depth >= 2 && self.r.chance(1, 4) {
            let name = self.bucket_name();
            let via = self.via();
            self.queue.push_back(Step::GetOrCreate { path: path.clone(), name: name.clone(), via });
            path.push(name.bytes());
        }
        let sequential = self.r.chance(1, 2);
        let start = self.r.below(self.cfg.nkeys as u64) as u32;
        for j in 0..n {
            let key = if sequential {
                Blob::Raw(self.key_bytes((start + j) % self.cfg.nkeys.max(n)))
            } else {
                self.pick_key()
            };
            let val = self.val();
            let via = self.via();
            self.queue.push_back(Step::Put { path: path.clone(), key, val, via });
        }
        if self.cfg.marker {
            let tag = self.fresh_tag();
            self.queue.push_back(Step::GetOrCreate { path: vec![], name: Blob::Raw(b"zz-m".to_vec()), via: Via::Vec });
            self.queue.push_back(Step::Put { path: vec![b"zz-m".to_vec()], key: Blob::Raw(b"marker".to_vec()), val: Blob::Pat { tag, len: 12 }, via: Via::Vec });
        }
        self.queue.push_back(Step::Commit);
    }

    /// Fill a bucket with a few hundred pages of data, or delete it if it is there: the free list
    /// then needs more than one page and crosses page boundaries while it is used up.
    fn plan_big_free(&mut self, committed: &MBucket) {
        let name = b"BF".to_vec();
        if matches!(committed.entries.get(&name), Some(Entry::Sub(_))) {
            *self.macros_used.entry("big_free_delete").or_default() += 1;
            self.queue.push_back(Step::DeleteBucket { path: vec![], name: Blob::Raw(name) });
        } else if committed.entries.contains_key(&name) {
            return self.queue.push_back(Step::Commit);
        } else {
            *self.macros_used.entry("big_free_fill").or_default() += 1;
            self.queue.push_back(Step::GetOrCreate { path: vec![], name: Blob::Raw(name.clone()), via: Via::Vec });
            let n = self.r.range(130, 300) as u32;
            let ps = self.cfg.pagesize as u32;
            for j in 0..n {
                let tag = self.fresh_tag();
                let len = ps / 2 + self.r.below(ps as u64 / 3) as u32;
                self.queue.push_back(Step::Put { path: vec![name.clone()], key: Blob::Raw(format!("bf{:04}", j).into_bytes()), val: Blob::Pat { tag, len }, via: Via::Vec });
            }
        }
        self.queue.push_back(Step::Commit);
    }

    /// More than 2^16 entries in one bucket inside one transaction.
    fn plan_giant(&mut self) {
        *self.macros_used.entry("giant_tx").or_default() += 1;
        let path: Path = vec![b"G".to_vec()];
        let key = |i: u32| Blob::Raw((i as u64).to_be_bytes().to_vec());
        self.queue.push_back(Step::GetOrCreate { path: vec![], name: Blob::Raw(b"G".to_vec()), via: Via::Vec });
        let n = 65_536 + 40 + self.r.below(400) as u32;
        for i in 0..n {
            self.queue.push_back(Step::Put { path: path.clone(), key: key(i), val: Blob::Pat { tag: i, len: 1 + (i % 3) }, via: Via::Vec });
        }
        for i in [65_535u32, 65_536, 65_537, n - 1, 3] {
            self.queue.push_back(Step::Get { path: path.clone(), key: key(i) });
        }
        self.queue.push_back(Step::Delete { path: path.clone(), key: key(65_540) });
        self.queue.push_back(Step::Get { path: path.clone(), key: key(4) });
        self.queue.push_back(Step::Get { path: path.clone(), key: key(65_540) });
        self.queue.push_back(Step::Put { path: path.clone(), key: key(65_536), val: Blob::Pat { tag: 7, len: 5 }, via: Via::Vec });
        self.queue.push_back(Step::Seek { path: path.clone(), key: key(65_530), take: 20, warm: 0 });
        self.queue.push_back(Step::Commit);
    }

    /// A few dozen sibling buckets under one parent: leaves and branches made of bucket entries.
    fn plan_many_buckets(&mut self, committed: &MBucket) {
        *self.macros_used.entry("many_buckets").or_default() += 1;
        let parent: Path = match self.pick_path(committed, true) {
            // top-level buckets: the root bucket's own tree grows leaves and branches
            _ if self.r.chance(1, 4) => vec![],
            Some(p) if p.len() <= 2 && self.r.chance(2, 3) => p,
            _ => {
                let name = self.bucket_name();
                let via = self.via();
                self.queue.push_back(Step::GetOrCreate { path: vec![], name: name.clone(), via });
                vec![name.bytes()]
            }
        };
        let n = self.r.range(12, 70) as u32;
        let pad = *self.r.pick(&[0usize, 40, 90]);
        let start = self.r.below(100) as u32;
        for j in 0..n {
            let name = Blob::Raw(format!("S{:03}{}", (start + j) % 100, "s".repeat(pad)).into_bytes());
            let via = self.via();
            self.queue.push_back(Step::GetOrCreate { path: parent.clone(), name: name.clone(), via });
            if self.r.chance(1, 3) {
                let mut p = parent.clone();
                p.push(name.bytes());
                let key = self.pick_key();
                let val = self.val();
                self.queue.push_back(Step::Put { path: p, key, val, via: Via::Vec });
            }
        }
        self.queue.push_back(Step::Commit);
    }

    /// Shape-targeted macros: aim at the tree shape the last commit left behind.
    fn plan_shape(&mut self, sh: &Shape, committed: &MBucket) {
        let multi: Vec<&crate::fsck::BucketShape> =
            sh.buckets.iter().filter(|b| b.leaves.len() >= 2 && !b.path.is_empty()).collect();
        let kind = self.r.below(9);
        if kind == 8 || multi.is_empty() {
            // delete a nested bucket and then its ancestor, in one transaction
            let deep: Vec<Path> = committed.all_paths().into_iter().filter(|p| p.len() >= 2).collect();
            if deep.is_empty() {
                return;
            }
            *self.macros_used.entry("nested_then_ancestor").or_default() += 1;
            let p = self.r.pick(&deep).clone();
            let cut = self.r.range(1, p.len() as u64 - 1) as usize;
            self.queue.push_back(Step::DeleteBucket { path: p[..p.len() - 1].to_vec(), name: Blob::Raw(p[p.len() - 1].clone()) });
            if self.r.chance(1, 3) {
                let key = self.pick_key();
                let val = self.val();
                self.queue.push_back(Step::Put { path: p[..cut].to_vec(), key, val, via: Via::Vec });
            }
            self.queue.push_back(Step::DeleteBucket { path: p[..cut - 1].to_vec(), name: Blob::Raw(p[cut - 1].clone()) });
            return;
        }
        let b = *self.r.pick(&multi);
        let path = b.path.clone();
        let view = match committed.resolve(&path) {
            Ok(v) => v,
            Err(_) => return,
        };
        // half of the time the macro removes nested buckets too (delete_bucket), so that a
        // leaf can be emptied through bucket deletions alone
        let with_buckets = self.r.chance(1, 2);
        let is_kv = |k: &Vec<u8>| matches!(view.entries.get(k), Some(Entry::Kv(_))) || (with_buckets && view.entries.contains_key(k));
        let del = |k: &Vec<u8>| -> Step {
            if matches!(view.entries.get(k), Some(Entry::Sub(_))) {
                Step::DeleteBucket { path: path.clone(), name: Blob::Raw(k.clone()) }
            } else {
                Step::Delete { path: path.clone(), key: Blob::Raw(k.clone()) }
            }
        };
        let li = self.r.below(b.leaves.len() as u64) as usize;
        let leaf = &b.leaves[li];
        match kind {
            0 => {
                *self.macros_used.entry("empty_leaf").or_default() += 1;
                for k in leaf.iter().filter(|k| is_kv(k)) {
                    self.queue.push_back(del(k));
                }
            }
            1 => {
                *self.macros_used.entry("all_but_one").or_default() += 1;
                let keep = self.r.below(leaf.len().max(1) as u64) as usize;
                for (i, k) in leaf.iter().enumerate() {
                    if i != keep && is_kv(k) {
                        self.queue.push_back(del(k));
                    }
                }
            }
            2 => {
                *self.macros_used.entry("span_boundary").or_default() += 1;
                let all: Vec<&Vec<u8>> = b.leaves.iter().flatten().collect();
                let boundary: usize = b.leaves[..=li].iter().map(|l| l.len()).sum();
                let lo = boundary.saturating_sub(self.r.range(1, 6) as usize);
                let hi = (boundary + self.r.range(1, 6) as usize).min(all.len());
                for k in &all[lo..hi] {
                    if is_kv(k) {
                        self.queue.push_back(del(k));
                    }
                }
            }
            3 => {
                *self.macros_used.entry("around_separator").or_default() += 1;
                if let Some(first) = leaf.first() {
                    let mut below = first.clone();
                    // byte predecessor: drop the last byte, or decrement it and pad
                    if let Some(l) = below.pop() {
                        if l > 0 {
                            below.push(l - 1);
                            below.push(0xff);
                        }
                    }
                    let mut above = first.clone();
                    above.push(0);
                    for k in [below, above] {
                        let val = self.val();
                        self.queue.push_back(Step::Put { path: path.clone(), key: Blob::Raw(k), val, via: Via::Vec });
                    }
                }
            }
            4 => {
                *self.macros_used.entry("empty_then_refill").or_default() += 1;
                for k in leaf.iter().filter(|k| is_kv(k)) {
                    self.queue.push_back(del(k));
                }
                self.queue.push_back(Step::Scan { path: path.clone(), extra_next: 1 });
                for k in leaf.iter().filter(|k| is_kv(k)) {
                    if self.r.chance(2, 3) {
                        let val = self.val();
                        self.queue.push_back(Step::Put { path: path.clone(), key: Blob::Raw(k.clone()), val, via: Via::Vec });
                    }
                }
            }
            5 => {
                *self.macros_used.entry("leaf_subset").or_default() += 1;
                let mask = self.r.next();
                for (i, k) in leaf.iter().enumerate() {
                    if mask >> (i % 64) & 1 == 1 && is_kv(k) {
                        self.queue.push_back(del(k));
                    }
                }
            }
            6 => {
                *self.macros_used.entry("empty_two_adjacent").or_default() += 1;
                for l in b.leaves.iter().skip(li).take(2) {
                    for k in l.iter().filter(|k| is_kv(k)) {
                        self.queue.push_back(del(k));
                    }
                }
            }
            _ => {
                *self.macros_used.entry("empty_all_but_leaf").or_default() += 1;
                for (i, l) in b.leaves.iter().enumerate() {
                    if i == li {
                        continue;
                    }
                    for k in l.iter().filter(|k| is_kv(k)) {
                        self.queue.push_back(del(k));
                    }
                }
            }
        }
        // touch a sub-bucket in a leaf that is about to merge
        if self.r.chance(1, 3) {
            if let Some(k) = leaf.iter().find(|k| matches!(view.entries.get(*k), Some(Entry::Sub(_)))) {
                let mut p = path.clone();
                p.push(k.clone());
                let key = self.pick_key();
                let val = self.val();
                self.queue.push_back(Step::Put { path: p, key, val, via: Via::Vec });
            }
        }
    }

    fn op(&mut self, view: &MBucket, rw: bool) -> Step {
        let bad = self.r.chance(self.cfg.p_bad as u64, 100);
        let mut w = self.cfg.w_op;
        if !rw && !self.cfg.ro_mutators {
            for i in [0usize, 1, 4, 5, 7] {
                w[i] = 0;
            }
            if w.iter().all(|x| *x == 0) {
                w[2] = 1;
            }
        }
        let has_bucket = view.entries.values().any(|e| matches!(e, Entry::Sub(_)));
        if !has_bucket {
            // nothing to operate in yet: create a root bucket first
            if rw {
                let name = self.bucket_name();
                let via = self.via();
                return if self.r.chance(1, 2) {
                    Step::CreateBucket { path: vec![], name, via }
                } else {
                    Step::GetOrCreate { path: vec![], name, via }
                };
            }
            return Step::Buckets { path: vec![] };
        }
        let kind = self.r.weighted(&w);
        let path = self.pick_path(view, true).unwrap();
        let depth_ok = (path.len() as u32) < self.cfg.max_depth + 1;
        // (key-level operations exist on buckets only: never aim one at the root level)
        let again = if kind <= 3 && self.r.chance(1, 6) { self.last.clone().filter(|(p, _)| !p.is_empty()) } else { None };
        match kind {
            0 => {
                let key = if bad {
                    self.existing(view, &path, Some(false)).map(Blob::Raw).unwrap_or_else(|| self.pick_key())
                } else {
                    self.pick_key()
                };
                let (path, key) = again.unwrap_or((path, key));
                self.last = Some((path.clone(), key.clone()));
                let val = self.val();
                let via = self.via();
                Step::Put { path, key, val, via }
            }
            1 => {
                let key = if bad {
                    self.pick_key()
                } else {
                    self.existing(view, &path, Some(true)).map(Blob::Raw).unwrap_or_else(|| self.pick_key())
                };
                let (path, key) = again.unwrap_or((path, key));
                self.last = Some((path.clone(), key.clone()));
                Step::Delete { path, key }
            }
            2 | 3 => {
                let key = if self.r.chance(2, 3) {
                    self.existing(view, &path, None).map(Blob::Raw).unwrap_or_else(|| self.pick_key())
                } else {
                    self.pick_key()
                };
                let (path, key) = again.unwrap_or((path, key));
                self.last = Some((path.clone(), key.clone()));
                if kind == 2 {
                    Step::Get { path, key }
                } else {
                    Step::GetKv { path, key }
                }
            }
            4 | 5 => {
                let path = if depth_ok || self.r.chance(1, 3) { path } else { vec![] };
                let path = if self.r.chance(1, 4) { vec![] } else { path };
                let name = self.bucket_name();
                let via = self.via();
                self.last = Some((path.clone(), name.clone()));
                if kind == 4 {
                    Step::CreateBucket { path, name, via }
                } else {
                    Step::GetOrCreate { path, name, via }
                }
            }
            6 => {
                let parent = if self.r.chance(1, 3) { vec![] } else { path };
                let name = if bad {
                    self.pick_key()
                } else {
                    self.existing(view, &parent, Some(false)).map(Blob::Raw).unwrap_or_else(|| self.bucket_name())
                };
                Step::GetBucket { path: parent, name }
            }
            7 => {
                let parent = if self.r.chance(1, 3) { vec![] } else { path };
                let name = if bad {
                    self.existing(view, &parent, Some(true)).map(Blob::Raw).unwrap_or_else(|| self.bucket_name())
                } else {
                    self.existing(view, &parent, Some(false)).map(Blob::Raw).unwrap_or_else(|| self.bucket_name())
                };
                Step::DeleteBucket { path: parent, name }
            }
            8 => Step::NextInt { path },
            9 => Step::Scan { path, extra_next: self.r.below(3) as u32 },
            10 => {
                let key = self.probe_key(view, &path);
                Step::Seek { path, key, take: self.r.range(0, 40) as u32, warm: if self.r.chance(1, 3) { self.r.range(1, 30) as u32 } else { 0 } }
            }
            11 => {
                let lo = self.probe_key(view, &path);
                let hi = self.probe_key(view, &path);
                let kinds = [BoundKind::Unbounded, BoundKind::Included, BoundKind::Excluded];
                Step::Range {
                    path,
                    lo,
                    lo_kind: *self.r.pick(&kinds),
                    hi,
                    hi_kind: *self.r.pick(&kinds),
                    filter: self.r.below(3) as u8,
                }
            }
            12 => Step::Buckets { path: if self.r.chance(1, 3) { vec![] } else { path } },
            _ => Step::KvPairs { path },
        }
    }

    fn probe_key(&mut self, view: &MBucket, path: &Path) -> Blob {
        match self.r.below(4) {
            0 => self.pick_key(),
            1 => self.existing(view, path, None).map(Blob::Raw).unwrap_or_else(|| self.pick_key()),
            2 => {
                let mut k = self.existing(view, path, None).unwrap_or_default();
                match self.r.below(3) {
                    0 => k.push(0),
                    1 => {
                        k.pop();
                    }
                    _ => {
                        if let Some(l) = k.last_mut() {
                            *l = l.wrapping_add(1);
                        }
                    }
                }
                Blob::Raw(k)
            }
            _ => Blob::Raw(if self.r.chance(1, 2) { vec![] } else { vec![0xff; 3] }),
        }
    }
}

pub fn key_bytes(cfg: &GenCfg, i: u32) -> Vec<u8> {
    if cfg.empty_key && i == 0 {
        return vec![];
    }
    if cfg.huge_key && i == 1 {
        let mut v = vec![b'H'; cfg.pagesize as usize + 37];
        v.extend_from_slice(&i.to_be_bytes());
        return v;
    }
    match cfg.key_style {
        0 => format!("k{:03}", i).into_bytes(),
        1 => (i as u64).to_be_bytes().to_vec(),
        2 => {
            // long shared prefix: few separators per branch page, deep trees
            let mut v = vec![b'p'; 120 + (i as usize * 7) % 90];
            v.extend_from_slice(format!("{:04}", i).as_bytes());
            v
        }
        3 => {
            // variable length, many prefixes of each other
            let len = 1 + (i as usize % 6);
            let mut v = vec![b'a' + (i / 6 % 26) as u8; len];
            v.push((i % 251) as u8);
            v
        }
        5 => {
            // keys of about half a page: two per leaf, and branch pages whose separators do not
            // fit one page (oversized branch pages with overflow)
            let mut v = format!("{:04}-", i.wrapping_mul(7919) % 10007).into_bytes();
            let len = cfg.pagesize as usize / 2 + (i as usize * 13) % 120;
            while v.len() < len {
                v.push(b'L');
            }
            v
        }
        _ => {
            // medium keys, interleaved order
            let j = i.wrapping_mul(2654435761) % 9973;
            format!("key-{:05}-{}", j, "x".repeat((i % 40) as usize)).into_bytes()
        }
    }
}
