//! A Case is everything needed to execute one simulated run deterministically: the property's
//! engine configuration, the hash seed, and either a generator seed or an explicit step list,
//! plus engine-specific extras (fault plan, crash point, corruption). It is the replay file.
use crate::model::Path;
use crate::seq::{EngineCfg, Violation};
use crate::step::Step;
use serde_json::{json, Value};

#[derive(Clone, Debug)]
pub struct Case {
    pub property: String,
    pub engine: String,
    pub seed: u64,
    pub pagesize: u64,
    pub num_pages: usize,
    pub strict: bool,
    pub populate: bool,
    pub handle_cache: bool,
    pub via_iter: bool,
    pub sweep: bool,
    pub probe: bool,
    /// None: generate from `seed`
    pub steps: Option<Vec<Step>>,
    pub extra: Value,
    pub expect: Option<(String, String)>,
    pub trace: Option<u64>,
}

impl Case {
    pub fn new(property: &str, engine: &str, seed: u64) -> Case {
        Case {
            property: property.into(),
            engine: engine.into(),
            seed,
            pagesize: 1024,
            num_pages: 32,
            strict: false,
            populate: false,
            handle_cache: false,
            via_iter: false,
            sweep: false,
            probe: false,
            steps: None,
            extra: Value::Null,
            expect: None,
            trace: None,
        }
    }

    pub fn apply(&self, e: &mut EngineCfg) {
        e.pagesize = self.pagesize;
        e.num_pages = self.num_pages;
        e.strict = self.strict;
        e.populate = self.populate;
        e.handle_cache = self.handle_cache;
        e.via_iter = self.via_iter;
        e.sweep = self.sweep;
        e.probe = self.probe;
    }

    pub fn to_json(&self) -> Value {
        json!({
            "property": self.property,
            "engine": self.engine,
            "seed": self.seed.to_string(),
            "config": {
                "pagesize": self.pagesize, "num_pages": self.num_pages, "strict": self.strict,
                "populate": self.populate, "handle_cache": self.handle_cache, "via_iter": self.via_iter, "sweep": self.sweep, "probe": self.probe,
            },
            "steps": self.steps.as_ref().map(|s| Value::Array(s.iter().map(|x| x.to_json()).collect())).unwrap_or(Value::Null),
            "extra": self.extra,
            "expect": self.expect.as_ref().map(|(o, s)| json!({"oracle": o, "site": s})).unwrap_or(Value::Null),
            "trace": self.trace.map(|t| format!("{:016x}", t)).map(Value::String).unwrap_or(Value::Null),
        })
    }

    pub fn from_json(v: &Value) -> Option<Case> {
        let c = v.get("config")?;
        let steps = match v.get("steps") {
            Some(Value::Array(a)) => Some(a.iter().map(Step::from_json).collect::<Option<Vec<Step>>>()?),
            _ => None,
        };
        Some(Case {
            property: v.get("property")?.as_str()?.to_string(),
            engine: v.get("engine")?.as_str()?.to_string(),
            seed: v.get("seed")?.as_str()?.parse().ok()?,
            pagesize: c.get("pagesize")?.as_u64()?,
            num_pages: c.get("num_pages")?.as_u64()? as usize,
            strict: c.get("strict")?.as_bool()?,
            populate: c.get("populate")?.as_bool()?,
            handle_cache: c.get("handle_cache")?.as_bool()?,
            via_iter: c.get("via_iter").and_then(|x| x.as_bool()).unwrap_or(false),
            sweep: c.get("sweep").and_then(|x| x.as_bool()).unwrap_or(false),
            probe: c.get("probe").and_then(|x| x.as_bool()).unwrap_or(false),
            steps,
            extra: v.get("extra").cloned().unwrap_or(Value::Null),
            expect: v.get("expect").and_then(|e| Some((e.get("oracle")?.as_str()?.to_string(), e.get("site")?.as_str()?.to_string()))),
            trace: v.get("trace").and_then(|t| t.as_str()).and_then(|s| u64::from_str_radix(s, 16).ok()),
        })
    }
}

/// What one execution of a case produced.
#[derive(Clone, Debug, Default)]
pub struct Verdict {
    pub violation: Option<Violation>,
    pub aborted: Option<Violation>,
    pub skipped: Option<String>,
    pub trace: u64,
    /// API outcomes only (no SimOS events): what must be equal across configurations
    pub api_trace: u64,
    pub issued: Vec<Step>,
    pub extra_out: Value,
    pub stats: crate::seq::Stats,
    pub counters: std::collections::BTreeMap<String, u64>,
    pub sim_events: u64,
    pub harness_error: Option<String>,
}

pub fn path_str(p: &Path) -> String {
    crate::fsck::pstr(p)
}
