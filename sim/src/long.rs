//! SEQ-LONG engine (C10): long steady-state workloads; the page high-water mark must be
//! bounded by the live data, not by the number of transactions.
use crate::case::{Case, Verdict};
use crate::fsck;
use crate::model::{diff, Entry, MBucket};
use crate::props;
use crate::rng::{mix, Rng};
use crate::seq::{catch, walk_tx, Violation};
use crate::simos;
use crate::step::Blob;
use jammdb::{OpenOptions, Tx, DB};
use serde_json::json;

#[derive(Clone, Debug)]
pub struct LongCfg {
    pub workload: u32,
    pub txs: u32,
    pub keys: u32,
    pub vsize: u32,
    pub reopen_every: u32,
    pub reader_from: u32,
    pub reader_to: u32,
    /// a chain of overlapping readers: one opens every `chain_every` transactions and lives
    /// `chain_life` (> chain_every) transactions, so a reader is open whenever a writer begins
    pub chain_every: u32,
    pub chain_life: u32,
    /// keys are padded to this length (0 = short keys): long keys make branch pages overflow
    pub klen: u32,
    /// workload 5: size of the initial population whose alternating leaves are then deleted
    pub pop: u32,
    /// every n-th transaction is preceded by a write transaction that does the same work and is
    /// then dropped without commit (0 = never): abandoned work must not cost space
    pub drop_every: u32,
    /// reader chain: one reader in three gets a twin opened on the same snapshot that closes
    /// after one transaction, while the other lives on
    pub twins: bool,
}

pub fn draw(seed: u64, thorough: bool, pagesize: u64) -> LongCfg {
    let mut r = Rng::new(mix(seed, 0x10A6));
    let txs = if thorough { *r.pick(&[1000u32, 2000, 3000]) } else { *r.pick(&[300u32, 450, 600]) };
    let mode = r.below(4);
    let reader = mode == 0;
    let chain = mode == 1;
    let chain_every = r.range(1, 4) as u32;
    let from = r.range(txs as u64 / 10, txs as u64 / 3) as u32;
    let workload = r.below(6) as u32;
    let klen = match r.below(4) {
        0 => (pagesize as u32 / 2).saturating_sub(24),
        1 => pagesize as u32 / 5,
        _ => 0,
    };
    LongCfg {
        workload,
        klen: if workload == 5 { 0 } else { klen },
        pop: *r.pick(&[300u32, 1200, 2000]),
        drop_every: *r.pick(&[0u32, 0, 3, 5]),
        twins: r.chance(1, 2),
        txs,
        keys: *r.pick(&[4u32, 16, 64]),
        vsize: *r.pick(&[16u32, 200, pagesize as u32, pagesize as u32 * 3 + 11]),
        reopen_every: if reader || chain { 0 } else { *r.pick(&[0u32, 0, 7, 50]) },
        chain_every: if chain { chain_every } else { 0 },
        chain_life: if chain { chain_every + r.range(1, 6) as u32 } else { 0 },
        reader_from: if reader { from } else { 0 },
        reader_to: if reader { from + r.range(5, (txs / 4).max(6) as u64) as u32 } else { 0 },
    }
}

pub fn execute(case: &Case) -> Verdict {
    let case = case.clone();
    let dir = props::fresh_dir("long");
    let dir2 = dir.clone();
    match props::on_fresh_thread(case.seed, dir, move || run(&case, &dir2)) {
        Ok(v) => v,
        Err(e) => Verdict { harness_error: Some(e), ..Default::default() },
    }
}

struct Sample {
    hwm: u64,
    live: u64,
    file_len: u64,
    /// pages this commit wrote (bytes handed to write calls / page size)
    written: u64,
}

fn stat(path: &str, ps: u64) -> Result<Sample, String> {
    let (mut buf, len) = simos::file_view(path).ok_or("no file view")?;
    let h = fsck::choose_header(&buf, ps).ok_or("no valid header")?;
    let need = h.num_pages.saturating_mul(ps).min(len) as usize;
    if buf.len() < need {
        buf.resize(need, 0);
    }
    let rep = fsck::check(&buf, len, ps)?;
    // Live data = pages actually reachable (headers, tree with overflow runs, free-list page).
    // Structural complaints (pages neither reachable nor free, ...) are C05's business and do
    // not stop this check: a leak is exactly the case where the mark outgrows the live data.
    if rep.shape.hwm == 0 {
        return Err(format!("file unsound: {:?}", rep.errors.first()));
    }
    Ok(Sample { hwm: rep.shape.hwm, live: rep.shape.reachable_pages, file_len: len, written: 0 })
}

fn open(path: &str, ps: u64, np: usize) -> Result<DB, String> {
    match catch(|| OpenOptions::new().pagesize(ps).num_pages(np).open(path)) {
        Ok(Ok(db)) => Ok(db),
        Ok(Err(e)) => Err(format!("open: {}", e)),
        Err(p) => Err(format!("open panicked: {}", p)),
    }
}

/// One transaction of the workload; mirrors into the model.
fn one_tx(tx: &Tx, m: &mut MBucket, lc: &LongCfg, t: u32, r: &mut Rng, ps: u64) -> Result<(), jammdb::Error> {
    let key = |i: u32| {
        let mut k = format!("key{:05}", i).into_bytes();
        while (k.len() as u32) < lc.klen {
            k.push(b'p');
        }
        k
    };
    match lc.workload {
        // fixed-size overwrite of the same keys
        0 => {
            let b = tx.get_or_create_bucket("w")?;
            let mb = sub(m, b"w");
            for i in 0..lc.keys {
                let v = Blob::Pat { tag: t * 1000 + i, len: lc.vsize }.bytes();
                b.put(key(i), v.clone())?;
                let _ = mb.put(&key(i), &v);
            }
        }
        // variable-size overwrite, including multi-page values needing contiguous runs
        1 => {
            let b = tx.get_or_create_bucket("w")?;
            let mb = sub(m, b"w");
            for i in 0..lc.keys.min(16) {
                let len = match r.below(4) {
                    0 => 10,
                    1 => ps as u32 / 2,
                    2 => ps as u32 + 100,
                    _ => ps as u32 * r.range(2, 4) as u32,
                };
                let v = Blob::Pat { tag: t * 1000 + i, len }.bytes();
                b.put(key(i), v.clone())?;
                let _ = mb.put(&key(i), &v);
            }
        }
        // insert / delete churn at constant live size: a sliding window of keys
        2 => {
            let b = tx.get_or_create_bucket("w")?;
            let mb = sub(m, b"w");
            let per = 4u32;
            for j in 0..per {
                let newk = t * per + j;
                let v = Blob::Pat { tag: newk, len: lc.vsize.min(ps as u32) }.bytes();
                b.put(key(newk), v.clone())?;
                let _ = mb.put(&key(newk), &v);
                if newk >= lc.keys {
                    let old = newk - lc.keys;
                    b.delete(key(old))?;
                    let _ = mb.delete(&key(old));
                }
            }
        }
        // create / delete bucket churn
        3 => {
            let name = format!("b{}", t % 3).into_bytes();
            if m.entries.contains_key(&name) {
                tx.delete_bucket(name.clone())?;
                let _ = m.delete_bucket(&name);
            }
            let b = tx.create_bucket(name.clone())?;
            let _ = m.create_bucket(&name);
            let mb = sub(m, &name);
            for i in 0..lc.keys.min(24) {
                let v = Blob::Pat { tag: t * 1000 + i, len: lc.vsize.min(ps as u32) }.bytes();
                b.put(key(i), v.clone())?;
                let _ = mb.put(&key(i), &v);
            }
            // a bucket that is committed empty and deleted, still empty, by a later transaction
            let ename = b"empty-one".to_vec();
            if m.entries.contains_key(&ename) {
                tx.delete_bucket(ename.clone())?;
                let _ = m.delete_bucket(&ename);
            } else if t % 2 == 1 {
                tx.create_bucket(ename.clone())?;
                let _ = m.create_bucket(&ename);
            }
            let b = tx.get_bucket(name.clone())?;
            let mb = sub(m, &name);
            if t % 2 == 0 {
                let n = b.create_bucket("nested")?;
                let _ = mb.create_bucket(b"nested");
                let mn = sub(mb, b"nested");
                // sometimes larger than a page: the nested bucket then owns overflow pages,
                // and it is deleted later without ever being opened
                let nl = if lc.vsize as u64 >= ps { ps as usize * 2 + 100 } else { 300 };
                n.put("x", vec![7u8; nl])?;
                let _ = mn.put(b"x", &vec![7u8; nl]);
            }
        }
        // a large, fragmented free list: populate, delete alternating leaves, then small
        // overwrites mixed with a few multi-page values that need contiguous runs
        5 => {
            let b = tx.get_or_create_bucket("w")?;
            let mb = sub(m, b"w");
            let small = (ps as u32 / 2).saturating_sub(60);
            if t == 0 {
                for i in 0..lc.pop {
                    let v = Blob::Pat { tag: i, len: small }.bytes();
                    b.put(key(i), v.clone())?;
                    let _ = mb.put(&key(i), &v);
                }
            } else if t == 1 {
                for i in 0..lc.pop {
                    if (i / 4) % 2 == 0 {
                        b.delete(key(i))?;
                        let _ = mb.delete(&key(i));
                    }
                }
            } else {
                for _ in 0..3 {
                    let i = r.below(lc.pop as u64) as u32;
                    if (i / 4) % 2 == 1 {
                        let v = Blob::Pat { tag: t * 1000 + i, len: small }.bytes();
                        b.put(key(i), v.clone())?;
                        let _ = mb.put(&key(i), &v);
                    }
                }
                if r.chance(1, 3) {
                    let k = format!("zbig{}", r.below(4)).into_bytes();
                    let v = Blob::Pat { tag: t, len: ps as u32 * r.range(2, 5) as u32 + 7 }.bytes();
                    b.put(k.clone(), v.clone())?;
                    let _ = mb.put(&k, &v);
                }
            }
        }
        // mixed: overwrite a random subset, delete a few, re-add
        _ => {
            let b = tx.get_or_create_bucket("w")?;
            let mb = sub(m, b"w");
            for _ in 0..6 {
                let i = r.below(lc.keys as u64) as u32;
                if r.chance(1, 3) && mb.entries.contains_key(&key(i)) {
                    b.delete(key(i))?;
                    let _ = mb.delete(&key(i));
                } else {
                    let len = if r.chance(1, 5) { ps as u32 * 2 + 5 } else { lc.vsize.min(ps as u32) };
                    let v = Blob::Pat { tag: t * 1000 + i, len }.bytes();
                    b.put(key(i), v.clone())?;
                    let _ = mb.put(&key(i), &v);
                }
            }
        }
    }
    Ok(())
}

fn sub<'m>(m: &'m mut MBucket, name: &[u8]) -> &'m mut MBucket {
    if !m.entries.contains_key(name) {
        let _ = m.create_bucket(name);
    }
    match m.entries.get_mut(name) {
        Some(Entry::Sub(s)) => s,
        _ => unreachable!(),
    }
}

fn run(case: &Case, dir: &str) -> Verdict {
    let path = format!("{}/db", dir);
    let thorough = case.extra.get("thorough").and_then(|x| x.as_bool()).unwrap_or(false);
    let lc = match case.extra.get("long") {
        Some(l) => LongCfg {
            workload: l["workload"].as_u64().unwrap_or(0) as u32,
            txs: l["txs"].as_u64().unwrap_or(100) as u32,
            keys: l["keys"].as_u64().unwrap_or(8) as u32,
            vsize: l["vsize"].as_u64().unwrap_or(100) as u32,
            reopen_every: l["reopen_every"].as_u64().unwrap_or(0) as u32,
            reader_from: l["reader_from"].as_u64().unwrap_or(0) as u32,
            reader_to: l["reader_to"].as_u64().unwrap_or(0) as u32,
            chain_every: l["chain_every"].as_u64().unwrap_or(0) as u32,
            chain_life: l["chain_life"].as_u64().unwrap_or(0) as u32,
            klen: l["klen"].as_u64().unwrap_or(0) as u32,
            pop: l["pop"].as_u64().unwrap_or(300) as u32,
            drop_every: l["drop_every"].as_u64().unwrap_or(0) as u32,
            twins: l["twins"].as_bool().unwrap_or(false),
        },
        None => draw(case.seed, thorough, case.pagesize),
    };
    let ps = case.pagesize;
    // a reader and a growing writer on one thread self-deadlock: start big when one is held
    let np = if lc.reader_to > 0 || lc.chain_every > 0 { (256 * 1024 * 1024 / ps) as usize } else { case.num_pages };
    let mut v = Verdict::default();
    v.extra_out = json!({"long": {"workload": lc.workload, "txs": lc.txs, "keys": lc.keys, "vsize": lc.vsize,
        "reopen_every": lc.reopen_every, "reader_from": lc.reader_from, "reader_to": lc.reader_to,
        "chain_every": lc.chain_every, "chain_life": lc.chain_life, "klen": lc.klen, "pop": lc.pop, "drop_every": lc.drop_every, "twins": lc.twins}});
    let mut r = Rng::new(mix(case.seed, 0x77));
    let mut model = MBucket::default();
    let mut samples: Vec<Sample> = Vec::with_capacity(lc.txs as usize);
    let mut fail = |oracle: &str, site: &str, detail: String| Violation { oracle: oracle.into(), site: site.into(), detail, step: 0, in_rw_tx: false };
    let mut db = match open(&path, ps, np) {
        Ok(d) => Some(d),
        Err(e) => {
            v.aborted = Some(fail("open", "open", e));
            return v;
        }
    };
    let mut t = 0u32;
    let mut runaway_stop = false;
    let mut hwm_at_reader_close: Option<(u32, u64)> = None;
    while t < lc.txs {
        // the stretch [t, end) runs on one handle; a reader may be held across part of it
        let end = if lc.reopen_every > 0 { (t + lc.reopen_every).min(lc.txs) } else { lc.txs };
        let dbr = db.as_ref().unwrap();
        let mut reader: Option<(Tx, MBucket)> = None;
        let mut chain: std::collections::VecDeque<(Tx, MBucket, u32)> = Default::default();
        let mut twins: Vec<Tx> = Vec::new();
        let mut err: Option<Violation> = None;
        while t < end {
            if lc.chain_every > 0 {
                // close readers that lived long enough (oldest first), verifying their snapshot
                while chain.front().map(|c| t >= c.2 + lc.chain_life).unwrap_or(false) {
                    let (tx, snap, born) = chain.pop_front().unwrap();
                    let mut incons = Vec::new();
                    match catch(|| walk_tx(&tx, &mut incons)) {
                        Ok(m) => {
                            if let Some(d) = diff(&m, &snap, false) {
                                err = Some(fail("growth-snapshot", "chained reader", format!("reader opened at transaction {} lost its snapshot: {}", born, d)));
                            }
                        }
                        Err(p) => err = Some(fail("growth-snapshot", "chained reader", format!("reader opened at transaction {} panicked: {}", born, p))),
                    }
                    drop(tx);
                }
                if err.is_some() {
                    break;
                }
                // twins opened one transaction ago close now, their sibling lives on
                twins.clear();
                if t % lc.chain_every == 0 {
                    if lc.twins && t % 3 == 0 {
                        if let Ok(Ok(tw)) = catch(|| dbr.tx(false)) {
                            twins.push(tw);
                            *v.counters.entry("twin_readers".into()).or_default() += 1;
                        }
                    }
                    match catch(|| dbr.tx(false)) {
                        Ok(Ok(tx)) => chain.push_back((tx, model.clone(), t)),
                        _ => {
                            err = Some(fail("open", "tx(false)", "cannot open a chained reader".into()));
                            break;
                        }
                    }
                    *v.counters.entry("chained_readers".into()).or_default() += 1;
                }
                if chain.len() >= 2 {
                    *v.counters.entry("writer_began_with_overlapping_readers".into()).or_default() += 1;
                }
            }
            if lc.reader_to > 0 && t == lc.reader_from {
                match catch(|| dbr.tx(false)) {
                    Ok(Ok(tx)) => reader = Some((tx, model.clone())),
                    _ => {
                        err = Some(fail("open", "tx(false)", "cannot open the pinned reader".into()));
                        break;
                    }
                }
                *v.counters.entry("reader_pinned".into()).or_default() += 1;
            }
            if lc.reader_to > 0 && t == lc.reader_to {
                if let Some((tx, snap)) = reader.take() {
                    let mut incons = Vec::new();
                    match catch(|| walk_tx(&tx, &mut incons)) {
                        Ok(m) => {
                            if let Some(d) = diff(&m, &snap, false) {
                                err = Some(fail("growth-snapshot", "pinned reader", format!("pinned reader lost its snapshot: {}", d)));
                                break;
                            }
                        }
                        Err(p) => {
                            err = Some(fail("growth-snapshot", "pinned reader", format!("pinned reader panicked: {}", p)));
                            break;
                        }
                    }
                    drop(tx);
                    hwm_at_reader_close = Some((t, samples.last().map(|s| s.hwm).unwrap_or(0)));
                }
            }
            if reader.is_some() || !chain.is_empty() {
                // growing the file while this thread holds a reader would block forever on the
                // map lock (documented misuse): stop before a commit could need to grow
                if let Some(s) = samples.last() {
                    if (s.hwm + 4096) * ps + (8 << 20) > s.file_len {
                        v.skipped = Some("the file would have to grow while the pinned reader is open".into());
                        return v;
                    }
                }
            }
            if lc.drop_every > 0 && t % lc.drop_every == 1 && !(lc.workload == 5 && t < 2) {
                // the same work, abandoned: rolled back by dropping the transaction
                let mut scratch = model.clone();
                let mut r2 = Rng::new(mix(case.seed, 0xD809 + t as u64));
                let res = catch(|| -> Result<(), jammdb::Error> {
                    let tx = dbr.tx(true)?;
                    one_tx(&tx, &mut scratch, &lc, t, &mut r2, ps)?;
                    drop(tx);
                    Ok(())
                });
                match res {
                    Ok(Ok(())) => *v.counters.entry("abandoned_transactions".into()).or_default() += 1,
                    Ok(Err(e)) => {
                        err = Some(fail("result", "abandoned tx", format!("transaction {} (to be abandoned) failed: {}", t, e)));
                        break;
                    }
                    Err(p) => {
                        err = Some(fail("panic", "abandoned tx", format!("transaction {} (to be abandoned) panicked: {}", t, p)));
                        break;
                    }
                }
            }
            let mut m2 = model.clone();
            let log_from = simos::log_len();
            let res = catch(|| -> Result<(), jammdb::Error> {
                let tx = dbr.tx(true)?;
                one_tx(&tx, &mut m2, &lc, t, &mut r, ps)?;
                tx.commit()
            });
            match res {
                Ok(Ok(())) => model = m2,
                Ok(Err(e)) => {
                    err = Some(fail("result", "commit", format!("transaction {} failed: {}", t, e)));
                    break;
                }
                Err(p) => {
                    err = Some(fail("panic", "commit", format!("transaction {} panicked: {}", t, p)));
                    break;
                }
            }
            match stat(&path, ps) {
                Ok(mut s) => {
                    s.written = (simos::bytes_written_since(log_from) + ps - 1) / ps;
                    // a runaway file makes every further step slower: stop as soon as the mark
                    // is far beyond anything the final bound could allow
                    let live_so_far = samples.iter().map(|x| x.live).max().unwrap_or(0).max(s.live);
                    let runaway = s.hwm > 8 * ((lc.chain_life as u64 + 7) * live_so_far + 16);
                    samples.push(s);
                    if runaway && reader.is_none() {
                        t += 1;
                        runaway_stop = true;
                        break;
                    }
                }
                Err(e) => {
                    err = Some(fail("fsck", "commit", e));
                    break;
                }
            }
            t += 1;
        }
        drop(reader);
        drop(chain);
        drop(twins);
        if let Some(e) = err {
            if e.oracle == "growth-snapshot" {
                // "while a reader pins an old snapshot the pages it needs are retained"
                v.violation = Some(e);
            } else {
                // not C10's business: some other property's oracle
                v.aborted = Some(e);
            }
            db = None;
            let _ = db;
            return v;
        }
        if runaway_stop {
            break;
        }
        if t < lc.txs {
            db = None;
            *v.counters.entry("reopens".into()).or_default() += 1;
            db = match open(&path, ps, np) {
                Ok(d) => Some(d),
                Err(e) => {
                    v.aborted = Some(fail("open", "reopen", e));
                    return v;
                }
            };
        }
    }
    // final logical check (cheap sanity: the workload did what the model says)
    if let Some(dbr) = db.as_ref() {
        let mut incons = Vec::new();
        let got = catch(|| dbr.tx(false).map(|tx| walk_tx(&tx, &mut incons)));
        match got {
            Ok(Ok(m)) => {
                if let Some(d) = diff(&m, &model, false) {
                    v.aborted = Some(fail("contents", "final", d));
                    return v;
                }
            }
            _ => {
                v.aborted = Some(fail("contents", "final", "cannot read back".into()));
                return v;
            }
        }
    }
    drop(db);
    v.stats.commits = samples.len() as u64;
    v.stats.steps = samples.len() as u64 * 8;
    v.sim_events = simos::total_calls();
    let mut h = crate::rng::Fnv::default();
    for s in &samples {
        h.u64(s.hwm);
        h.u64(s.live);
    }
    v.trace = h.0;
    // ---- the oracle: growth bounded by live data, independent of the number of transactions
    let n = samples.len();
    if n < 20 {
        return v;
    }
    let max_live = samples.iter().map(|s| s.live).max().unwrap();
    let in_hold = |i: usize| lc.reader_to > 0 && (i as u32) >= lc.reader_from && (i as u32) < lc.reader_to + 6;
    // with a chain of readers, pages freed during a reader's life stay pending: the mark may
    // additionally hold what (life + 2) transactions free, each at most the live size
    let bound = if lc.chain_every > 0 { (lc.chain_life as u64 + 7) * max_live + 16 } else { 5 * max_live + 16 };
    let mut worst = (0u64, 0usize);
    for (i, s) in samples.iter().enumerate() {
        if lc.reader_to > 0 && (i as u32) >= lc.reader_from {
            // pages retained for the pinned reader legitimately raise the mark for good
            continue;
        }
        if s.hwm > worst.0 {
            worst = (s.hwm, i);
        }
        if s.hwm > bound {
            v.violation = Some(fail(
                "growth",
                "bound",
                format!(
                    "after {} transactions the high-water mark is {} pages while live data never exceeded {} pages (bound 5L+16 = {}); workload {} keys {} vsize {} reopen_every {}",
                    i + 1, s.hwm, max_live, bound, lc.workload, lc.keys, lc.vsize, lc.reopen_every
                ),
            ));
            return v;
        }
    }
    let _ = in_hold;
    v.counters.insert("hwm_over_live_x100".into(), worst.0 * 100 / max_live.max(1));
    // plateau: the second half of the run must not raise the mark reached in the first half by
    // more than a constant (steady workloads reach their plateau early)
    let (lo, hi) = if lc.reader_to > 0 {
        // after the reader closed (+5 transactions) the mark must stop growing
        let start = (lc.reader_to as usize + 5).min(n);
        (start, n)
    } else {
        (n / 2, n)
    };
    if hi > lo + 10 {
        let before = samples[..lo].iter().map(|s| s.hwm).max().unwrap_or(0);
        let mid = lo + (hi - lo) / 2;
        let first = samples[lo..mid].iter().map(|s| s.hwm).max().unwrap_or(0).max(before);
        let second = samples[mid..hi].iter().map(|s| s.hwm).max().unwrap_or(0);
        // fragmentation of multi-page runs converges slowly; a leak grows without end. The
        // allowance is a constant that does not depend on the number of transactions: a few
        // times what a single commit of the judged stretch writes (a steady workload cannot
        // strand more than that per round of fragmentation), never more than twice the live data
        let dwin = samples[lo..hi].iter().map(|s| s.written).max().unwrap_or(0);
        let slack = (8 + 2 * max_live).min(8 + 4 * dwin);
        let grew = second.saturating_sub(first);
        let bucket = if grew <= 8 { "plateau_growth_le_8" } else if grew <= 8 + dwin { "plateau_growth_le_1D" } else if grew <= 8 + 2 * dwin { "plateau_growth_le_2D" } else if grew <= 8 + 4 * dwin { "plateau_growth_le_4D" } else { "plateau_growth_gt_4D" };
        *v.counters.entry(bucket.into()).or_default() += 1;
        if second > first + slack {
            v.violation = Some(fail(
                "growth",
                "plateau",
                format!(
                    "the high-water mark keeps growing with the number of transactions: max {} pages in transactions [{}..{}) but {} in [{}..{}) (live data at most {} pages, a commit writes at most {} pages, allowance {}, reader hold {}..{}); workload {} keys {} vsize {} klen {} pop {} reopen_every {}",
                    first, lo, mid, second, mid, hi, max_live, dwin, slack, lc.reader_from, lc.reader_to, lc.workload, lc.keys, lc.vsize, lc.klen, lc.pop, lc.reopen_every
                ),
            ));
            return v;
        }
        *v.counters.entry("plateau_checked".into()).or_default() += 1;
    }
    if let Some((tc, _)) = hwm_at_reader_close {
        *v.counters.entry("reader_closed_then_reuse_checked".into()).or_default() += 1;
        let _ = tc;
    }
    // file length: at most the high-water mark rounded up to the growth step, plus one step
    let step = 8 * 1024 * 1024u64;
    if let Some(s) = samples.last() {
        let initial = np as u64 * ps;
        let need = s.hwm * ps;
        let allowed = (((need + step - 1) / step) * step + step).max(initial + step);
        if s.file_len > allowed {
            v.violation = Some(fail(
                "growth",
                "file-length",
                format!("file is {} bytes for a high-water mark of {} pages ({} bytes)", s.file_len, s.hwm, need),
            ));
        }
    }
    v
}
