//! CRASH engine (C02): run a history, then synthesise the disk images a process kill or a
//! power loss could leave at every instant of every chosen commit, reopen each through the
//! public API and require: open succeeds, the file is structurally sound, the contents are
//! exactly the state before or exactly the state after the interrupted commit (only "after"
//! once commit has returned), and a further transaction commits correctly.
use crate::case::{Case, Verdict};
use crate::fsck;
use crate::model::{diff, Entry, MBucket};
use crate::props;
use crate::rng::{mix, Rng};
use crate::seq::{self, catch, CommitRec, Engine, Source, Violation};
use crate::simos::{self, Ev, Marker};
use bumpalo::Bump;
use jammdb::OpenOptions;
use serde_json::{json, Value};
use std::collections::BTreeMap;

const SECTOR: usize = 512;

/// How one surviving write is torn.
#[derive(Clone, Debug, PartialEq, Eq)]
pub enum Tear {
    /// only the sectors (512 B) whose bit is set reach the medium
    Sectors(u64),
    /// only the 8-byte words whose bit is set reach the medium (header record)
    Words(u64),
}

#[derive(Clone, Debug, PartialEq, Eq)]
pub struct CrashSpec {
    /// commit number (1-based) whose window the instant lies in
    pub commit: u32,
    /// "kill" (process dies, OS survives) or "power"
    pub kind: String,
    /// index into the event log: the crash happens just before this event
    pub at: usize,
    /// power only: which events issued since the last completed sync reach the medium
    pub survivors: Vec<usize>,
    pub tears: BTreeMap<usize, Tear>,
}

impl CrashSpec {
    pub fn to_json(&self) -> Value {
        let tears: Vec<Value> = self
            .tears
            .iter()
            .map(|(k, t)| match t {
                Tear::Sectors(m) => json!({"event": k, "sectors": format!("{:x}", m)}),
                Tear::Words(m) => json!({"event": k, "words": format!("{:x}", m)}),
            })
            .collect();
        json!({"commit": self.commit, "kind": self.kind, "at": self.at, "survivors": self.survivors, "tears": tears})
    }
    pub fn from_json(v: &Value) -> Option<CrashSpec> {
        let mut tears = BTreeMap::new();
        for t in v.get("tears")?.as_array()? {
            let e = t.get("event")?.as_u64()? as usize;
            if let Some(s) = t.get("sectors").and_then(|x| x.as_str()) {
                tears.insert(e, Tear::Sectors(u64::from_str_radix(s, 16).ok()?));
            } else if let Some(s) = t.get("words").and_then(|x| x.as_str()) {
                tears.insert(e, Tear::Words(u64::from_str_radix(s, 16).ok()?));
            }
        }
        Some(CrashSpec {
            commit: v.get("commit")?.as_u64()? as u32,
            kind: v.get("kind")?.as_str()?.to_string(),
            at: v.get("at")?.as_u64()? as usize,
            survivors: v.get("survivors")?.as_array()?.iter().filter_map(|x| x.as_u64().map(|n| n as usize)).collect(),
            tears,
        })
    }
}

#[derive(Clone, Default)]
struct Image {
    data: Vec<u8>,
    len: u64,
}

impl Image {
    fn apply(&mut self, ev: &Ev, tear: Option<&Tear>) {
        match ev {
            Ev::Write { off, data, .. } => {
                let off = *off as usize;
                let end = off + data.len();
                if self.data.len() < end {
                    self.data.resize(end, 0);
                }
                match tear {
                    None => self.data[off..end].copy_from_slice(data),
                    Some(Tear::Sectors(mask)) => {
                        // sector boundaries are absolute file offsets
                        let mut i = 0usize;
                        let mut s = 0u32;
                        while i < data.len() {
                            let abs = off + i;
                            let n = (SECTOR - abs % SECTOR).min(data.len() - i);
                            if mask >> (s % 64) & 1 == 1 {
                                self.data[abs..abs + n].copy_from_slice(&data[i..i + n]);
                            }
                            i += n;
                            s += 1;
                        }
                    }
                    Some(Tear::Words(mask)) => {
                        let mut i = 0usize;
                        let mut w = 0u32;
                        while i < data.len() {
                            let n = 8.min(data.len() - i);
                            // bits 0..12: the 13 words of page header + header record (104 B);
                            // bit 63: everything after them
                            let bit = if w < 13 { mask >> w & 1 } else { mask >> 63 & 1 };
                            if bit == 1 {
                                self.data[off + i..off + i + n].copy_from_slice(&data[i..i + n]);
                            }
                            i += n;
                            w += 1;
                        }
                    }
                }
                if self.len < end as u64 {
                    self.len = end as u64;
                }
            }
            Ev::Extend { len, .. } => {
                self.len = *len;
                if self.data.len() as u64 > *len {
                    self.data.truncate(*len as usize);
                }
            }
            _ => {}
        }
    }
}

pub struct Explorer {
    pub pagesize: u64,
    pub dir: String,
    pub counters: BTreeMap<String, u64>,
    pub images: u64,
    pub skip_fsck: bool,
    /// also crash the transaction that follows a recovery (one level)
    pub second_level: bool,
    pub last_spec: Option<CrashSpec>,
    in_second: bool,
    n: u64,
}

pub struct ImageVerdict {
    pub oracle: &'static str,
    pub detail: String,
}

impl Explorer {
    pub fn new(pagesize: u64, dir: &str) -> Explorer {
        Explorer { pagesize, dir: dir.to_string(), counters: BTreeMap::new(), images: 0, skip_fsck: false, second_level: false, last_spec: None, in_second: false, n: 0 }
    }
    fn count(&mut self, k: &str) {
        *self.counters.entry(k.to_string()).or_default() += 1;
    }

    /// Open an image through the public API and judge it. `accept` lists the acceptable
    /// logical states; returns which one matched, or the failed oracle.
    pub fn judge(&mut self, img: &[u8], len: u64, accept: &[&MBucket], followup: bool) -> Result<usize, ImageVerdict> {
        self.images += 1;
        self.n += 1;
        let path = format!("{}/img{}", self.dir, self.n % 4);
        simos::bypass(|| {
            use std::io::Write;
            let mut f = std::fs::File::create(&path).expect("image file");
            f.write_all(img).expect("write image");
            f.set_len(len).expect("image length");
        });
        simos::forget(&path);
        simos::adopt(&path, img, len);
        // structural soundness first, on the raw bytes
        let ps = self.pagesize;
        let chosen = fsck::choose_header(img, ps);
        let mut buf_owned;
        let mut buf: &[u8] = img;
        if let Some(h) = &chosen {
            let need = h.num_pages.saturating_mul(ps).min(len) as usize;
            if img.len() < need {
                buf_owned = img.to_vec();
                buf_owned.resize(need, 0);
                buf = &buf_owned;
            }
        }
        let rep = if self.skip_fsck { Err(String::new()) } else { fsck::check(buf, len, ps) };
        let opened = catch(|| OpenOptions::new().pagesize(ps).open(&path));
        let db = match opened {
            Ok(Ok(db)) => db,
            Ok(Err(e)) => return Err(ImageVerdict { oracle: "crash-open", detail: format!("reopening the crash image returned {}", e) }),
            Err(p) => return Err(ImageVerdict { oracle: "crash-open", detail: format!("reopening the crash image panicked: {}", p) }),
        };
        let budget = 20_000 + 8 * accept.iter().map(|a| a.count_entries()).max().unwrap_or(0);
        let walked = catch(|| -> Result<MBucket, String> {
            let tx = db.tx(false).map_err(|e| format!("tx(false): {}", e))?;
            let mut incons = Vec::new();
            seq::set_walk_budget(budget);
            let m = seq::walk_tx(&tx, &mut incons);
            if let Some(i) = incons.first() {
                return Err(i.clone());
            }
            Ok(m)
        });
        let got = match walked {
            Ok(Ok(m)) => m,
            Ok(Err(e)) => return Err(ImageVerdict { oracle: "crash-state", detail: format!("reading the recovered database: {}", e) }),
            Err(p) => return Err(ImageVerdict { oracle: "crash-state", detail: format!("reading the recovered database panicked: {}", p) }),
        };
        let mut which = None;
        for (i, a) in accept.iter().enumerate() {
            if diff(&got, a, false).is_none() {
                which = Some(i);
                break;
            }
        }
        let mut second_log: Vec<Ev> = Vec::new();
        let mut second_want: Option<MBucket> = None;
        let which = match which {
            Some(w) => w,
            None => {
                let d: Vec<String> = accept.iter().map(|a| diff(&got, a, false).unwrap_or_default()).collect();
                return Err(ImageVerdict {
                    oracle: "crash-state",
                    detail: format!("recovered contents match none of the {} acceptable state(s); differences (left = database): {}", accept.len(), d.join(" | ")),
                });
            }
        };
        match rep {
            Err(_) if self.skip_fsck => {}
            Err(e) => return Err(ImageVerdict { oracle: "crash-fsck", detail: format!("crash image does not parse: {}", e) }),
            Ok(r) => {
                if let Some(e) = r.errors.first() {
                    return Err(ImageVerdict { oracle: "crash-fsck", detail: format!("crash image is not structurally sound: {}", e) });
                }
                if diff(&r.contents, accept[which], false).is_some() {
                    return Err(ImageVerdict { oracle: "crash-fsck", detail: "independent parse of the crash image disagrees with what the database shows".into() });
                }
            }
        }
        if followup {
            self.count("followup_commits");
            let mut want = accept[which].clone();
            let val = vec![0x5au8; 300];
            // second level: record what the follow-up commit writes, to crash it as well
            let second = self.second_level && !self.in_second;
            if second {
                let _ = simos::take_log();
                simos::set_logging(true);
            }
            // every other recovery first sees a write transaction that is abandoned: whatever
            // the first writer after a recovery has to do must not be lost with it
            let abandon_first = self.images % 2 == 1;
            if abandon_first {
                self.count("followup_preceded_by_abandoned_tx");
            }
            let r = catch(|| -> Result<(), String> {
                if abandon_first {
                    let tx = db.tx(true).map_err(|e| format!("tx(true): {}", e))?;
                    {
                        let b = tx.get_or_create_bucket("zz-abandoned").map_err(|e| format!("get_or_create_bucket: {}", e))?;
                        b.put("never-committed", val.clone()).map_err(|e| format!("put: {}", e))?;
                    }
                    drop(tx);
                }
                let tx = db.tx(true).map_err(|e| format!("tx(true): {}", e))?;
                {
                    let b = tx.get_or_create_bucket("zz-recovery").map_err(|e| format!("get_or_create_bucket: {}", e))?;
                    b.put("after-crash", val.clone()).map_err(|e| format!("put: {}", e))?;
                }
                tx.commit().map_err(|e| format!("commit: {}", e))
            });
            let log2 = if second {
                simos::set_logging(false);
                simos::take_log()
            } else {
                Vec::new()
            };
            match r {
                Ok(Ok(())) => {}
                Ok(Err(e)) => return Err(ImageVerdict { oracle: "crash-followup", detail: format!("transaction after recovery failed: {}", e) }),
                Err(p) => return Err(ImageVerdict { oracle: "crash-followup", detail: format!("transaction after recovery panicked: {}", p) }),
            }
            let created = !want.entries.contains_key(&b"zz-recovery".to_vec());
            if created {
                want.next_int += 1;
            }
            let e = want.entries.entry(b"zz-recovery".to_vec()).or_insert_with(|| Entry::Sub(MBucket::default()));
            if let Entry::Sub(s) = e {
                let _ = s.put(b"after-crash", &val);
            }
            let walked = catch(|| -> Result<MBucket, String> {
                let tx = db.tx(false).map_err(|e| format!("tx(false): {}", e))?;
                let mut incons = Vec::new();
                Ok(seq::walk_tx(&tx, &mut incons))
            });
            match walked {
                Ok(Ok(m)) => {
                    if let Some(d) = diff(&m, &want, false) {
                        return Err(ImageVerdict { oracle: "crash-followup", detail: format!("after a transaction on the recovered database: {}", d) });
                    }
                    second_log = log2;
                    second_want = Some(want.clone());
                }
                Ok(Err(e)) => return Err(ImageVerdict { oracle: "crash-followup", detail: e }),
                Err(p) => return Err(ImageVerdict { oracle: "crash-followup", detail: format!("panicked: {}", p) }),
            }
            if let Some((b, l)) = simos::file_view(&path) {
                let mut b = b;
                if let Some(h) = fsck::choose_header(&b, ps) {
                    let need = h.num_pages.saturating_mul(ps).min(l) as usize;
                    if b.len() < need {
                        b.resize(need, 0);
                    }
                }
                match fsck::check(&b, l, ps) {
                    Ok(r) if r.errors.is_empty() => {}
                    Ok(r) => return Err(ImageVerdict { oracle: "crash-followup", detail: format!("file unsound after a transaction on the recovered database: {}", r.errors[0]) }),
                    Err(e) => return Err(ImageVerdict { oracle: "crash-followup", detail: format!("file unparsable after a transaction on the recovered database: {}", e) }),
                }
            }
        }
        drop(db);
        if !second_log.is_empty() {
            // crash the follow-up commit too: every kill prefix, and at each sync the prefixes and
            // leave-one-out subsets of the writes issued since the previous one
            self.in_second = true;
            let base = Image { data: img.to_vec(), len };
            let recovered = accept[which].clone();
            let post = second_want.clone().unwrap_or_else(|| recovered.clone());
            let mut res = Ok(());
            let io: Vec<usize> = (0..second_log.len()).filter(|i| matches!(second_log[*i], Ev::Write { .. } | Ev::Extend { .. } | Ev::Sync { .. })).collect();
            'outer: for cut in io.iter().cloned().chain(std::iter::once(second_log.len())) {
                // kill: everything issued before `cut`
                let mut im = base.clone();
                for e in &second_log[..cut] {
                    im.apply(e, None);
                }
                self.count("second_level_kill_points");
                if let Err(iv) = self.judge(&im.data, im.len, &[&recovered, &post], false) {
                    res = Err(ImageVerdict { oracle: iv.oracle, detail: format!("second crash, during the transaction that followed recovery (kill before event {} of it): {}", cut, iv.detail) });
                    break 'outer;
                }
                // power: the header write of the follow-up commit torn at 8-byte words (all
                // prefixes and every single word), on top of everything issued before it
                if cut < second_log.len() {
                    if let Ev::Write { off, .. } = &second_log[cut] {
                        if *off < 2 * self.pagesize {
                            let tail = 1u64 << 63;
                            let mut masks: Vec<u64> = Vec::new();
                            for w in 1..13u32 {
                                masks.push((1u64 << w) - 1);
                                masks.push((1u64 << w) | tail);
                            }
                            for m in masks {
                                let mut t = im.clone();
                                t.apply(&second_log[cut], Some(&Tear::Words(m)));
                                self.count("second_level_word_tears");
                                if let Err(iv) = self.judge(&t.data, t.len, &[&recovered, &post], false) {
                                    res = Err(ImageVerdict { oracle: iv.oracle, detail: format!("second crash (power loss tearing the header write, words {:x}) during the transaction that followed recovery: {}", m, iv.detail) });
                                    break 'outer;
                                }
                            }
                        }
                    }
                }
                // power: at a sync, subsets of the epoch that ends here
                if cut < second_log.len() && matches!(second_log[cut], Ev::Sync { .. }) {
                    let start = second_log[..cut].iter().rposition(|e| matches!(e, Ev::Sync { .. })).map(|p| p + 1).unwrap_or(0);
                    let vol: Vec<usize> = (start..cut).filter(|i| matches!(second_log[*i], Ev::Write { .. } | Ev::Extend { .. })).collect();
                    let mut durable = base.clone();
                    for e in &second_log[..start] {
                        durable.apply(e, None);
                    }
                    let mut subsets: Vec<Vec<usize>> = Vec::new();
                    for p in 0..vol.len() {
                        subsets.push(vol[..p].to_vec());
                        subsets.push(vol.iter().cloned().filter(|x| *x != vol[p]).collect());
                    }
                    for sset in subsets {
                        let mut im = durable.clone();
                        for i in &sset {
                            im.apply(&second_log[*i], None);
                        }
                        self.count("second_level_power_subsets");
                        if let Err(iv) = self.judge(&im.data, im.len, &[&recovered, &post], false) {
                            res = Err(ImageVerdict { oracle: iv.oracle, detail: format!("second crash (power loss) during the transaction that followed recovery: {}", iv.detail) });
                            break 'outer;
                        }
                    }
                }
            }
            self.in_second = false;
            res?;
        }
        Ok(which)
    }
}

fn sectors_of(off: u64, len: usize) -> u32 {
    let first = off as usize / SECTOR;
    let last = (off as usize + len.max(1) - 1) / SECTOR;
    (last - first + 1) as u32
}

/// Build the image for a spec from the event log.
fn build_image(log: &[Ev], spec: &CrashSpec) -> Image {
    let mut cache = Image::default();
    let mut durable = Image::default();
    for (i, ev) in log.iter().enumerate() {
        if i >= spec.at {
            break;
        }
        match ev {
            Ev::Sync { .. } => durable = cache.clone(),
            _ => cache.apply(ev, None),
        }
    }
    if spec.kind == "kill" {
        return cache;
    }
    let mut img = durable;
    for i in &spec.survivors {
        if *i < log.len() {
            img.apply(&log[*i], spec.tears.get(i));
        }
    }
    img
}

pub fn execute(case: &Case) -> Verdict {
    let case = case.clone();
    let dir = props::fresh_dir("crash");
    let dir2 = dir.clone();
    let r = props::on_fresh_thread(case.seed, dir.clone(), move || run(&case, &dir2));
    match r {
        Ok(v) => v,
        Err(e) => Verdict { harness_error: Some(e), ..Default::default() },
    }
}

fn run(case: &Case, dir: &str) -> Verdict {
    let path = format!("{}/db", dir);
    let arena = Bump::new();
    let src = match &case.steps {
        Some(s) => Source::List(s.iter().cloned().collect()),
        None => Source::Gen(Box::new(props::gen_for(&case.property, case))),
    };
    let mut ecfg = props::engine_cfg(case, &path);
    ecfg.keep_models = true;
    ecfg.verify_commit = false;
    ecfg.fsck_commit = true;
    ecfg.oracles = vec![];
    let out = Engine::new(ecfg, src, &arena).run();
    let mut v = Verdict {
        aborted: out.aborted.clone(),
        trace: out.trace,
        issued: out.issued.clone(),
        stats: out.stats.clone(),
        ..Default::default()
    };
    if let Err(e) = simos::shadow_matches(&path) {
        v.harness_error = Some(format!("SimOS shadow differs from the real file: {}", e));
        return v;
    }
    let log = simos::take_log();
    simos::set_logging(false);
    let mut ex = Explorer::new(case.pagesize, dir);
    let spec = case.extra.get("crash").and_then(CrashSpec::from_json);
    let thorough = case.extra.get("thorough").and_then(|x| x.as_bool()).unwrap_or(false);
    ex.second_level = thorough || case.seed % 4 == 0 || case.extra.get("second_level").and_then(|x| x.as_bool()).unwrap_or(false);
    let result = match spec {
        Some(s) => check_one(&mut ex, &log, &out.commits, &s, true),
        None => explore(&mut ex, &log, &out.commits, case.seed, thorough),
    };
    v.counters = ex.counters.clone();
    v.counters.insert("images".into(), ex.images);
    v.sim_events = simos::total_calls();
    if let Some((spec, viol)) = result {
        v.extra_out = json!({"crash": spec.to_json(), "second_level": ex.second_level});
        v.violation = Some(viol);
    } else if let Some(s) = ex.last_spec.take() {
        // a sample of what was explored, for the evidence file
        v.extra_out = json!({"sample_crash_point": s.to_json(), "images_in_this_run": ex.images});
    }
    if let Some(h) = seq::HARNESS_FAULT.with(|p| p.borrow_mut().take()) {
        v.harness_error = Some(format!("the harness itself panicked: {}", h));
    }
    v
}

fn window_of(log: &[Ev], rec: &CommitRec) -> (usize, usize) {
    // log_call points at the CommitCall marker, log_ret just after the CommitReturn marker
    let _ = log;
    (rec.log_call + 1, rec.log_ret)
}

fn check_one(ex: &mut Explorer, log: &[Ev], commits: &[CommitRec], spec: &CrashSpec, followup: bool) -> Option<(CrashSpec, Violation)> {
    let rec = commits.iter().find(|c| c.n == spec.commit)?;
    let (_, ret) = window_of(log, rec);
    let img = build_image(log, spec);
    if !spec.tears.is_empty() || ex.last_spec.is_none() {
        ex.last_spec = Some(spec.clone());
    }
    let after_return = spec.at >= ret;
    let accept: Vec<&MBucket> = if after_return { vec![&*rec.post] } else { vec![&*rec.pre, &*rec.post] };
    match ex.judge(&img.data, img.len, &accept, followup) {
        Ok(_) => None,
        Err(iv) => {
            let phase = if after_return { "after-return" } else { "in-commit" };
            let torn = if spec.tears.is_empty() { "" } else { "-torn" };
            Some((
                spec.clone(),
                Violation {
                    oracle: iv.oracle.to_string(),
                    site: format!("{}{} {}", spec.kind, torn, phase),
                    detail: format!(
                        "commit {} interrupted by {} at event {} ({} survivors of the volatile set, {} torn): {}",
                        spec.commit,
                        spec.kind,
                        spec.at,
                        spec.survivors.len(),
                        spec.tears.len(),
                        iv.detail
                    ),
                    step: 0,
                    in_rw_tx: true,
                },
            ))
        }
    }
}

fn explore(ex: &mut Explorer, log: &[Ev], commits: &[CommitRec], seed: u64, thorough: bool) -> Option<(CrashSpec, Violation)> {
    let mut r = Rng::new(mix(seed, 0xC4A5));
    // choose commits: all when few, otherwise a seeded sample biased to growth and big commits
    let mut chosen: Vec<&CommitRec> = commits.iter().filter(|c| c.ok).collect();
    let cap = if thorough { 8 } else { 4 };
    if chosen.len() > cap {
        let mut scored: Vec<(u64, &CommitRec)> = chosen
            .iter()
            .map(|c| {
                let size = (c.log_ret - c.log_call) as u64;
                let bias = if c.grew { 1_000 } else { 0 } + size.min(200);
                (bias + r.below(300), *c)
            })
            .collect();
        scored.sort_by(|a, b| b.0.cmp(&a.0));
        chosen = scored.into_iter().take(cap).map(|x| x.1).collect();
        chosen.sort_by_key(|c| c.n);
    }
    let mut full_word_enum_done = false;
    for rec in chosen {
        let (first, ret) = window_of(log, rec);
        // ---- process kill: every prefix of the events of this commit, and one point after it
        for at in first..=ret {
            let is_io = at == ret || matches!(log.get(at), Some(Ev::Write { .. }) | Some(Ev::Extend { .. }) | Some(Ev::Sync { .. }));
            if !is_io {
                continue;
            }
            ex.count("kill_points");
            let spec = CrashSpec { commit: rec.n, kind: "kill".into(), at, survivors: vec![], tears: BTreeMap::new() };
            let fu = r.chance(1, 6);
            if let Some(x) = check_one(ex, log, commits, &spec, fu) {
                return Some(x);
            }
        }
        // ---- power loss: at the end of each sync epoch inside the window and at return
        let mut epoch_start = 0usize;
        for (i, ev) in log.iter().enumerate().take(first) {
            if matches!(ev, Ev::Sync { .. }) {
                epoch_start = i + 1;
            }
        }
        let mut instants: Vec<usize> = Vec::new();
        for at in first..ret {
            if matches!(log[at], Ev::Sync { .. }) {
                instants.push(at);
            }
        }
        instants.push(ret);
        let mut es = epoch_start;
        for at in instants {
            let volatile: Vec<usize> = (es..at).filter(|i| matches!(log[*i], Ev::Write { .. } | Ev::Extend { .. })).collect();
            if at < ret {
                es = at + 1;
            }
            let k = volatile.len();
            let mut subsets: Vec<Vec<usize>> = Vec::new();
            if k <= 10 {
                for m in 0..(1u32 << k) {
                    subsets.push((0..k).filter(|b| m >> b & 1 == 1).map(|b| volatile[b]).collect());
                }
            } else {
                for p in 0..=k {
                    subsets.push(volatile[..p].to_vec());
                }
                for drop in 0..k {
                    subsets.push(volatile.iter().enumerate().filter(|(i, _)| *i != drop).map(|(_, e)| *e).collect());
                }
                for one in 0..k {
                    subsets.push(vec![volatile[one]]);
                }
                let extra = if thorough { 256 } else { 64 };
                for _ in 0..extra {
                    let m = r.next() | (r.next() << 1);
                    subsets.push(volatile.iter().enumerate().filter(|(i, _)| m >> (i % 64) & 1 == 1 || r.chance(1, 3)).map(|(_, e)| *e).collect());
                }
            }
            if k > 0 {
                ex.count("power_instants_with_volatile_writes");
            }
            for s in subsets {
                ex.count("power_subsets");
                if s.iter().any(|i| matches!(log[*i], Ev::Extend { .. })) {
                    ex.count("extend_survived");
                } else if volatile.iter().any(|i| matches!(log[*i], Ev::Extend { .. })) {
                    ex.count("extend_lost");
                }
                let spec = CrashSpec { commit: rec.n, kind: "power".into(), at, survivors: s.clone(), tears: BTreeMap::new() };
                let fu = r.chance(1, 8);
                if let Some(x) = check_one(ex, log, commits, &spec, fu) {
                    return Some(x);
                }
                // sector tears of one surviving multi-sector write
                let multi: Vec<usize> = s
                    .iter()
                    .cloned()
                    .filter(|i| matches!(&log[*i], Ev::Write { off, data, .. } if sectors_of(*off, data.len()) > 1))
                    .collect();
                let tear_here = s.len() == k || s.len() == 1 || k <= 5;
                if !multi.is_empty() && tear_here && (k <= 10 || r.chance(1, 4)) {
                    let victim = *r.pick(&multi);
                    let ns = if let Ev::Write { off, data, .. } = &log[victim] { sectors_of(*off, data.len()) } else { 1 };
                    let full: u64 = if ns >= 64 { u64::MAX } else { (1u64 << ns) - 1 };
                    let masks = [
                        full >> 1 & full,                 // prefix (last sector lost)
                        full & !1,                        // suffix (first sector lost)
                        1,                                // only the first sector
                        r.next() & full,                  // seeded mask
                    ];
                    for m in masks {
                        if m == full {
                            continue;
                        }
                        ex.count("sector_tears");
                        let mut tears = BTreeMap::new();
                        tears.insert(victim, Tear::Sectors(m));
                        let spec = CrashSpec { commit: rec.n, kind: "power".into(), at, survivors: s.clone(), tears };
                        if let Some(x) = check_one(ex, log, commits, &spec, false) {
                            return Some(x);
                        }
                    }
                }
                // word tears of the header write: it is the write to page 0 or 1
                let hdr: Vec<usize> = s
                    .iter()
                    .cloned()
                    .filter(|i| matches!(&log[*i], Ev::Write { off, data, .. } if *off < 2 * ex.pagesize && data.len() as u64 <= ex.pagesize))
                    .collect();
                if let (Some(h), true) = (hdr.last(), tear_here) {
                    // words 0..13 cover the page header and the header record (104 bytes)
                    let mut masks: Vec<u64> = Vec::new();
                    let tail = 1u64 << 63; // the rest of the page follows bit 63
                    for p in 0..=13u32 {
                        masks.push(((1u64 << p) - 1) | tail); // prefixes
                        masks.push(((1u64 << p) - 1) & !tail);
                    }
                    for w in 0..13u32 {
                        masks.push((1u64 << w) | tail); // single words
                        masks.push((0x1fffu64 & !(1u64 << w)) | tail); // all but one
                    }
                    if thorough && !full_word_enum_done {
                        full_word_enum_done = true;
                        for m in 0..(1u64 << 13) {
                            masks.push(m | tail);
                        }
                        ex.count("header_full_word_enumerations");
                    }
                    for m in masks {
                        ex.count("word_tears");
                        let mut tears = BTreeMap::new();
                        tears.insert(*h, Tear::Words(m));
                        let spec = CrashSpec { commit: rec.n, kind: "power".into(), at, survivors: s.clone(), tears };
                        // one recovery from a torn header in six is followed by a further commit
                        // (which, at the second level, is crashed in turn)
                        let fu = r.chance(1, 6);
                        if let Some(x) = check_one(ex, log, commits, &spec, fu) {
                            return Some(x);
                        }
                    }
                }
            }
        }
    }
    let _ = Marker::TxDrop;
    None
}
