//! Reference model: a nested ordered map. Knows nothing about pages.
use std::collections::BTreeMap;

#[derive(Clone, Copy, Debug, PartialEq, Eq, Hash, PartialOrd, Ord)]
pub enum EK {
    BucketExists,
    BucketMissing,
    KeyValueMissing,
    IncompatibleValue,
    ReadOnlyTx,
    Io,
    Sync,
    InvalidDB,
    Alloc,
}

impl EK {
    pub fn of(e: &jammdb::Error) -> EK {
        use jammdb::Error::*;
        match e {
            BucketExists => EK::BucketExists,
            BucketMissing => EK::BucketMissing,
            KeyValueMissing => EK::KeyValueMissing,
            IncompatibleValue => EK::IncompatibleValue,
            ReadOnlyTx => EK::ReadOnlyTx,
            Io(_) => EK::Io,
            Sync(_) => EK::Sync,
            InvalidDB(_) => EK::InvalidDB,
            Alloc(_) => EK::Alloc,
        }
    }
    pub fn name(self) -> &'static str {
        match self {
            EK::BucketExists => "BucketExists",
            EK::BucketMissing => "BucketMissing",
            EK::KeyValueMissing => "KeyValueMissing",
            EK::IncompatibleValue => "IncompatibleValue",
            EK::ReadOnlyTx => "ReadOnlyTx",
            EK::Io => "Io",
            EK::Sync => "Sync",
            EK::InvalidDB => "InvalidDB",
            EK::Alloc => "Alloc",
        }
    }
}

#[derive(Clone, Debug, PartialEq, Eq)]
pub enum Entry {
    Kv(Vec<u8>),
    Sub(MBucket),
}

#[derive(Clone, Debug, PartialEq, Eq, Default)]
pub struct MBucket {
    pub next_int: u64,
    pub entries: BTreeMap<Vec<u8>, Entry>,
}

pub type Path = Vec<Vec<u8>>;

/// One listed entry: key and Some(value) for a pair, None for a bucket.
pub type Item = (Vec<u8>, Option<Vec<u8>>);

impl MBucket {
    /// Resolve a path of bucket names; the error is what the database must report when the
    /// same chain of get_bucket calls is made.
    pub fn resolve(&self, path: &[Vec<u8>]) -> Result<&MBucket, EK> {
        let mut b = self;
        for name in path {
            match b.entries.get(name) {
                None => return Err(EK::BucketMissing),
                Some(Entry::Kv(_)) => return Err(EK::IncompatibleValue),
                Some(Entry::Sub(s)) => b = s,
            }
        }
        Ok(b)
    }
    pub fn resolve_mut(&mut self, path: &[Vec<u8>]) -> Result<&mut MBucket, EK> {
        let mut b = self;
        for name in path {
            match b.entries.get_mut(name) {
                None => return Err(EK::BucketMissing),
                Some(Entry::Kv(_)) => return Err(EK::IncompatibleValue),
                Some(Entry::Sub(s)) => b = s,
            }
        }
        Ok(b)
    }
    pub fn put(&mut self, k: &[u8], v: &[u8]) -> Result<Option<Item>, EK> {
        match self.entries.get_mut(k) {
            Some(Entry::Sub(_)) => Err(EK::IncompatibleValue),
            Some(Entry::Kv(old)) => {
                let o = std::mem::replace(old, v.to_vec());
                Ok(Some((k.to_vec(), Some(o))))
            }
            None => {
                self.next_int += 1;
                self.entries.insert(k.to_vec(), Entry::Kv(v.to_vec()));
                Ok(None)
            }
        }
    }
    pub fn delete(&mut self, k: &[u8]) -> Result<Item, EK> {
        match self.entries.get(k) {
            None => Err(EK::KeyValueMissing),
            Some(Entry::Sub(_)) => Err(EK::IncompatibleValue),
            Some(Entry::Kv(_)) => {
                if let Some(Entry::Kv(v)) = self.entries.remove(k) {
                    Ok((k.to_vec(), Some(v)))
                } else {
                    unreachable!()
                }
            }
        }
    }
    pub fn get(&self, k: &[u8]) -> Option<Item> {
        match self.entries.get(k) {
            None => None,
            Some(Entry::Kv(v)) => Some((k.to_vec(), Some(v.clone()))),
            Some(Entry::Sub(_)) => Some((k.to_vec(), None)),
        }
    }
    pub fn get_kv(&self, k: &[u8]) -> Option<Item> {
        match self.entries.get(k) {
            Some(Entry::Kv(v)) => Some((k.to_vec(), Some(v.clone()))),
            _ => None,
        }
    }
    pub fn get_bucket(&self, k: &[u8]) -> Result<(), EK> {
        match self.entries.get(k) {
            None => Err(EK::BucketMissing),
            Some(Entry::Kv(_)) => Err(EK::IncompatibleValue),
            Some(Entry::Sub(_)) => Ok(()),
        }
    }
    pub fn create_bucket(&mut self, k: &[u8]) -> Result<(), EK> {
        match self.entries.get(k) {
            Some(Entry::Sub(_)) => Err(EK::BucketExists),
            Some(Entry::Kv(_)) => Err(EK::IncompatibleValue),
            None => {
                self.next_int += 1;
                self.entries.insert(k.to_vec(), Entry::Sub(MBucket::default()));
                Ok(())
            }
        }
    }
    pub fn get_or_create_bucket(&mut self, k: &[u8]) -> Result<(), EK> {
        match self.entries.get(k) {
            Some(Entry::Sub(_)) => Ok(()),
            Some(Entry::Kv(_)) => Err(EK::IncompatibleValue),
            None => self.create_bucket(k),
        }
    }
    pub fn delete_bucket(&mut self, k: &[u8]) -> Result<(), EK> {
        self.get_bucket(k)?;
        self.entries.remove(k);
        Ok(())
    }
    pub fn items(&self) -> Vec<Item> {
        self.entries
            .iter()
            .map(|(k, e)| match e {
                Entry::Kv(v) => (k.clone(), Some(v.clone())),
                Entry::Sub(_) => (k.clone(), None),
            })
            .collect()
    }
    pub fn keys(&self) -> Vec<Vec<u8>> {
        self.entries.keys().cloned().collect()
    }
    /// all bucket paths, depth first, including the root (empty path)
    pub fn all_paths(&self) -> Vec<Path> {
        fn rec(b: &MBucket, cur: &mut Path, out: &mut Vec<Path>) {
            out.push(cur.clone());
            for (k, e) in &b.entries {
                if let Entry::Sub(s) = e {
                    cur.push(k.clone());
                    rec(s, cur, out);
                    cur.pop();
                }
            }
        }
        let mut out = Vec::new();
        rec(self, &mut Vec::new(), &mut out);
        out
    }
    pub fn count_entries(&self) -> usize {
        self.entries
            .values()
            .map(|e| match e {
                Entry::Kv(_) => 1,
                Entry::Sub(s) => 1 + s.count_entries(),
            })
            .sum()
    }
    /// structural hash of the logical contents (deterministic)
    pub fn digest(&self) -> u64 {
        let mut h = crate::rng::Fnv::default();
        self.digest_into(&mut h, true);
        h.0
    }
    /// digest ignoring the root's own counter (not observable through the API)
    pub fn digest_into(&self, h: &mut crate::rng::Fnv, with_counter: bool) {
        if with_counter {
            h.u64(self.next_int);
        }
        h.u64(self.entries.len() as u64);
        for (k, e) in &self.entries {
            h.u64(k.len() as u64);
            h.write(k);
            match e {
                Entry::Kv(v) => {
                    h.write(&[0]);
                    h.u64(v.len() as u64);
                    h.write(v);
                }
                Entry::Sub(s) => {
                    h.write(&[1]);
                    s.digest_into(h, true);
                }
            }
        }
    }
}

/// First difference between two buckets, for messages.
pub fn diff(a: &MBucket, b: &MBucket, check_root_counter: bool) -> Option<String> {
    fn rec(a: &MBucket, b: &MBucket, path: &mut Vec<String>, counter: bool) -> Option<String> {
        if counter && a.next_int != b.next_int {
            return Some(format!("{}: next_int {} vs {}", path.join("/"), a.next_int, b.next_int));
        }
        let mut ia = a.entries.iter();
        let mut ib = b.entries.iter();
        loop {
            match (ia.next(), ib.next()) {
                (None, None) => return None,
                (Some((k, _)), None) => return Some(format!("{}: key {} only in left", path.join("/"), hex(k))),
                (None, Some((k, _))) => return Some(format!("{}: key {} only in right", path.join("/"), hex(k))),
                (Some((ka, ea)), Some((kb, eb))) => {
                    if ka != kb {
                        return Some(format!("{}: key {} vs {}", path.join("/"), hex(ka), hex(kb)));
                    }
                    match (ea, eb) {
                        (Entry::Kv(x), Entry::Kv(y)) => {
                            if x != y {
                                return Some(format!(
                                    "{}: value of {} differs ({} B {} vs {} B {})",
                                    path.join("/"),
                                    hex(ka),
                                    x.len(),
                                    hex(&x[..x.len().min(8)]),
                                    y.len(),
                                    hex(&y[..y.len().min(8)])
                                ));
                            }
                        }
                        (Entry::Sub(x), Entry::Sub(y)) => {
                            path.push(hex(ka));
                            if let Some(d) = rec(x, y, path, true) {
                                return Some(d);
                            }
                            path.pop();
                        }
                        _ => return Some(format!("{}: kind of {} differs", path.join("/"), hex(ka))),
                    }
                }
            }
        }
    }
    rec(a, b, &mut vec!["".to_string()], check_root_counter)
}

pub fn hex(b: &[u8]) -> String {
    if b.len() > 24 {
        let mut s: String = b[..16].iter().map(|x| format!("{:02x}", x)).collect();
        s.push_str(&format!("..({}B)", b.len()));
        s
    } else {
        b.iter().map(|x| format!("{:02x}", x)).collect()
    }
}

pub fn hex_full(b: &[u8]) -> String {
    b.iter().map(|x| format!("{:02x}", x)).collect()
}

pub fn unhex(s: &str) -> Option<Vec<u8>> {
    if s.len() % 2 != 0 {
        return None;
    }
    (0..s.len() / 2).map(|i| u8::from_str_radix(&s[2 * i..2 * i + 2], 16).ok()).collect()
}
