//! C15: a version change treated as a restart onto an old node's disk. The pinned release
//! (vendored verbatim in /verif/pinned as crate `jammdb_pinned`) writes a seeded database;
//! the current tree must open it with identical contents and carry on; the same with legacy
//! headers; a mismatching page size must be refused without touching the file; and what the
//! current tree writes must be readable by the pinned release and parse under the pinned
//! layout (fsck.rs). Golden images committed under /verif/golden make the check independent
//! of the vendored copy compiling.
use crate::case::{Case, Verdict};
use crate::fsck;
use crate::model::{diff, Entry, MBucket};
use crate::props;
use crate::rng::{mix, Rng};
use crate::seq::{catch, Engine, Source, Violation};
use crate::simos;
use crate::step::Blob;
use bumpalo::Bump;
use serde_json::json;

pub const SIZES: [u64; 4] = [1024, 4096, 5000, 16384];

macro_rules! driver {
    ($modname:ident, $krate:ident) => {
        pub mod $modname {
            use super::*;
            use $krate::{Bucket, Data, OpenOptions, Tx};

            fn sub<'m>(m: &'m mut MBucket, name: &[u8]) -> &'m mut MBucket {
                if !m.entries.contains_key(name) {
                    let _ = m.create_bucket(name);
                }
                match m.entries.get_mut(name) {
                    Some(Entry::Sub(s)) => s,
                    _ => unreachable!(),
                }
            }

            /// Write a seeded database: nested buckets, multi-page values, deletes that leave
            /// a non-empty free list. Only operations the pinned release handles correctly.
            pub fn write_history(path: &str, ps: u64, seed: u64, txs: u32) -> Result<MBucket, String> {
                let mut r = Rng::new(mix(seed, 0xC15));
                let mut m = MBucket::default();
                if txs == 0 {
                    // a small database that never outgrows its initial allocation
                    let db = OpenOptions::new().pagesize(ps).num_pages(32).open(path).map_err(|e| format!("open: {}", e))?;
                    let tx = db.tx(true).map_err(|e| format!("tx: {}", e))?;
                    {
                        let b = tx.get_or_create_bucket("small").map_err(|e| e.to_string())?;
                        let ms = sub(&mut m, b"small");
                        for j in 0..r.range(1, 5) {
                            let k = format!("s{}", j).into_bytes();
                            let v = Blob::Pat { tag: 7 + j as u32, len: 10 + 20 * j as u32 }.bytes();
                            b.put(k.clone(), v.clone()).map_err(|e| e.to_string())?;
                            let _ = ms.put(&k, &v);
                        }
                    }
                    tx.commit().map_err(|e| format!("commit: {}", e))?;
                    return Ok(m);
                }
                let db = OpenOptions::new().pagesize(ps).num_pages(8).open(path).map_err(|e| format!("open: {}", e))?;
                let mut tag = 1u32;
                for t in 0..txs {
                    let tx = db.tx(true).map_err(|e| format!("tx: {}", e))?;
                    {
                        let top = tx.get_or_create_bucket("top").map_err(|e| e.to_string())?;
                        let mt = sub(&mut m, b"top");
                        let n = r.range(3, 14);
                        for _ in 0..n {
                            tag += 1;
                            let k = format!("k{:03}", r.below(60)).into_bytes();
                            let len = match r.below(6) {
                                0 => 0,
                                1 => ps as u32 + r.below(300) as u32,
                                2 => ps as u32 * 2 + 13,
                                _ => r.range(1, 120) as u32,
                            };
                            let v = Blob::Pat { tag, len }.bytes();
                            top.put(k.clone(), v.clone()).map_err(|e| e.to_string())?;
                            let _ = mt.put(&k, &v);
                        }
                        let nested = top.get_or_create_bucket("nested").map_err(|e| e.to_string())?;
                        let mn = sub(mt, b"nested");
                        for j in 0..r.range(1, 6) {
                            tag += 1;
                            let k = format!("n{}-{}", t, j).into_bytes();
                            let v = Blob::Pat { tag, len: 20 + 30 * j as u32 }.bytes();
                            nested.put(k.clone(), v.clone()).map_err(|e| e.to_string())?;
                            let _ = mn.put(&k, &v);
                        }
                        let deeper = nested.get_or_create_bucket("deeper").map_err(|e| e.to_string())?;
                        let md = sub(mn, b"deeper");
                        tag += 1;
                        let v = Blob::Pat { tag, len: 64 }.bytes();
                        deeper.put(format!("d{}", t % 4).into_bytes(), v.clone()).map_err(|e| e.to_string())?;
                        let _ = md.put(format!("d{}", t % 4).as_bytes(), &v);
                        // deletes: a few existing keys (never a whole leaf: the pinned cursor and
                        // rebalancing have defects there that are other properties' business)
                        if t > 0 {
                            let mt = sub(&mut m, b"top");
                            let keys: Vec<Vec<u8>> = mt.entries.iter().filter(|(_, e)| matches!(e, Entry::Kv(_))).map(|(k, _)| k.clone()).collect();
                            for k in keys.iter().skip(keys.len() / 2).take(if keys.len() >= 10 { 1 } else { 0 }) {
                                top.delete(k.clone()).map_err(|e| e.to_string())?;
                                let _ = mt.delete(k);
                            }
                        }
                    }
                    let other = tx.get_or_create_bucket(format!("b{}", t % 3)).map_err(|e| e.to_string())?;
                    let mo = sub(&mut m, format!("b{}", t % 3).as_bytes());
                    tag += 1;
                    let v = Blob::Pat { tag, len: 33 }.bytes();
                    other.put("x", v.clone()).map_err(|e| e.to_string())?;
                    let _ = mo.put(b"x", &v);
                    drop(other);
                    tx.commit().map_err(|e| format!("commit: {}", e))?;
                }
                if r.chance(1, 3) {
                    // a free list of a few hundred pages (a large flat bucket filled, then deleted)
                    // that a seeded number of small commits then uses up: its length ends
                    // anywhere, also just above or below what fits one free-list page
                    let n = r.range(130, 300);
                    let tx = db.tx(true).map_err(|e| format!("tx: {}", e))?;
                    {
                        let b = tx.get_or_create_bucket("ballast").map_err(|e| e.to_string())?;
                        for j in 0..n {
                            tag += 1;
                            let v = Blob::Pat { tag, len: ps as u32 / 2 + r.below(ps / 3) as u32 }.bytes();
                            b.put(format!("bf{:04}", j).into_bytes(), v).map_err(|e| e.to_string())?;
                        }
                    }
                    tx.commit().map_err(|e| format!("commit: {}", e))?;
                    let tx = db.tx(true).map_err(|e| format!("tx: {}", e))?;
                    tx.delete_bucket("ballast").map_err(|e| e.to_string())?;
                    tx.commit().map_err(|e| format!("commit: {}", e))?;
                    for t in 0..r.below(90) {
                        let tx = db.tx(true).map_err(|e| format!("tx: {}", e))?;
                        {
                            let top = tx.get_or_create_bucket("top").map_err(|e| e.to_string())?;
                            let mt = sub(&mut m, b"top");
                            tag += 1;
                            let k = format!("u{:03}", t % 7).into_bytes();
                            let v = Blob::Pat { tag, len: 40 + (t as u32 % 5) * 150 }.bytes();
                            top.put(k.clone(), v.clone()).map_err(|e| e.to_string())?;
                            let _ = mt.put(&k, &v);
                        }
                        tx.commit().map_err(|e| format!("commit: {}", e))?;
                    }
                }
                Ok(m)
            }

            fn walk(b: &Bucket) -> MBucket {
                let mut out = MBucket { next_int: b.next_int(), entries: Default::default() };
                for d in b.cursor() {
                    match &d {
                        Data::KeyValue(kv) => {
                            out.entries.insert(kv.key().to_vec(), Entry::Kv(kv.value().to_vec()));
                        }
                        Data::Bucket(bn) => {
                            if let Ok(s) = b.get_bucket(bn) {
                                out.entries.insert(bn.name().to_vec(), Entry::Sub(walk(&s)));
                            }
                        }
                    }
                }
                out
            }

            pub fn walk_tx(tx: &Tx) -> MBucket {
                let mut out = MBucket::default();
                for (n, b) in tx.buckets() {
                    out.entries.insert(n.name().to_vec(), Entry::Sub(walk(&b)));
                }
                out
            }

            pub fn read_all(path: &str, ps: u64) -> Result<MBucket, String> {
                let db = OpenOptions::new().pagesize(ps).open(path).map_err(|e| format!("open: {}", e))?;
                let tx = db.tx(false).map_err(|e| format!("tx: {}", e))?;
                Ok(walk_tx(&tx))
            }

            /// Try to open with the given page size; Ok(true) = opened, Ok(false) = refused
            pub fn try_open(path: &str, ps: u64) -> bool {
                OpenOptions::new().pagesize(ps).open(path).is_ok()
            }
        }
    };
}

driver!(pinned, jammdb_pinned);
driver!(current, jammdb);

pub fn execute(case: &Case) -> Verdict {
    let case = case.clone();
    let dir = props::fresh_dir("compat");
    let dir2 = dir.clone();
    match props::on_fresh_thread(case.seed, dir, move || run(&case, &dir2)) {
        Ok(v) => v,
        Err(e) => Verdict { harness_error: Some(e), ..Default::default() },
    }
}

fn fail(oracle: &str, site: &str, detail: String) -> Violation {
    Violation { oracle: oracle.into(), site: site.into(), detail, step: 0, in_rw_tx: false }
}

fn to_legacy(img: &mut [u8], ps: u64) -> bool {
    let mut any = false;
    for slot in 0..2u64 {
        if let Some(h) = fsck::valid_header(img, slot, ps, false) {
            let base = (slot * ps) as usize;
            for b in img[base + fsck::REC_OFF..base + fsck::REC_OFF + fsck::REC_LEN_OLD].iter_mut() {
                *b = 0;
            }
            fsck::write_header(&mut img[base..base + ps as usize], &h, true);
            any = true;
        }
    }
    any
}

fn put_file(path: &str, img: &[u8], len: u64) {
    simos::bypass(|| {
        use std::io::Write;
        let mut f = std::fs::File::create(path).expect("create");
        f.write_all(img).expect("write");
        f.set_len(len).expect("len");
    });
    simos::forget(path);
    simos::adopt(path, img, len);
}

/// The current tree takes over the file at `path` whose contents are `model`.
fn takeover(case: &Case, path: &str, ps: u64, model: &MBucket, what: &str, v: &mut Verdict) -> Option<MBucket> {
    // 1. identical logical contents
    match catch(|| current::read_all(path, ps)) {
        Ok(Ok(m)) => {
            if let Some(d) = diff(&m, model, false) {
                v.violation = Some(fail("compat-contents", what, format!("{} (page size {}): contents differ after opening with the current code (left = database): {}", what, ps, d)));
                return None;
            }
        }
        Ok(Err(e)) => {
            v.violation = Some(fail("compat-open", what, format!("{} (page size {}): {}", what, ps, e)));
            return None;
        }
        Err(p) => {
            v.violation = Some(fail("compat-open", what, format!("{} (page size {}): panicked: {}", what, ps, p)));
            return None;
        }
    }
    // 2. accepts further commits: a seeded continuation under the model oracle and fsck
    let arena = Bump::new();
    let mut c2 = case.clone();
    c2.property = "C15".into();
    c2.pagesize = ps;
    let mut g = props::gen_for("C15", &c2);
    g.cfg.txs = g.cfg.txs.min(5);
    g.cfg.bulk_len.1 = g.cfg.bulk_len.1.min(80);
    let mut ecfg = props::engine_cfg(&c2, path);
    ecfg.pagesize = ps;
    ecfg.oracles = vec!["result", "panic", "contents", "fsck-logical", "fsck", "scan", "open", "dbcheck"];
    ecfg.db_check = true;
    let out = Engine::new(ecfg, Source::Gen(Box::new(g)), &arena).with_initial(model.clone()).run();
    v.stats.commits += out.stats.commits;
    v.stats.steps += out.stats.steps;
    if let Some(x) = out.violation {
        v.violation = Some(fail("compat-continue", &format!("{}: {} @ {}", what, x.oracle, x.site), format!("{} (page size {}), continuing with the current code: {}", what, ps, x.detail)));
        return None;
    }
    Some(out.final_model)
}

fn run(case: &Case, dir: &str) -> Verdict {
    let mut v = Verdict::default();
    let mut r = Rng::new(mix(case.seed, 0x0C15));
    let ps = case.extra.get("pagesize").and_then(|x| x.as_u64()).unwrap_or_else(|| *r.pick(&SIZES));
    // one run in four uses a small file that never grew past its initial 32 pages
    let small = r.chance(1, 4);
    let txs = if small { 0 } else { r.range(2, 7) as u32 };
    let path = format!("{}/db", dir);
    v.extra_out = json!({"pagesize": ps});
    *v.counters.entry(format!("pagesize={}", ps)).or_default() += 1;
    // ---- the pinned release writes the file
    let model = match catch(|| pinned::write_history(&path, ps, case.seed, txs)) {
        Ok(Ok(m)) => m,
        Ok(Err(e)) => {
            v.harness_error = Some(format!("the pinned release failed to write the seed database: {}", e));
            return v;
        }
        Err(p) => {
            v.harness_error = Some(format!("the pinned release panicked writing the seed database: {}", p));
            return v;
        }
    };
    let (img0, len0) = simos::file_view(&path).unwrap();
    // the independent reader (pinned layout) agrees with what the pinned release wrote
    let mut buf = img0.clone();
    if let Some(h) = fsck::choose_header(&buf, ps) {
        let need = h.num_pages.saturating_mul(ps).min(len0) as usize;
        if buf.len() < need {
            buf.resize(need, 0);
        }
    }
    match fsck::check(&buf, len0, ps) {
        Ok(rep) if rep.errors.is_empty() && diff(&rep.contents, &model, false).is_none() => {
            if small {
                *v.counters.entry("seed_db_never_grew".into()).or_default() += 1;
                if len0 != 32 * ps {
                    v.harness_error = Some(format!("the small seed database grew to {} bytes", len0));
                    return v;
                }
            }
            if rep.shape.free > 0 {
                *v.counters.entry("seed_db_free_list_nonempty".into()).or_default() += 1;
            }
            if rep.shape.n_overflow_pages > 0 {
                *v.counters.entry("seed_db_multi_page_values".into()).or_default() += 1;
            }
        }
        Ok(rep) => {
            v.harness_error = Some(format!("independent reader disagrees with the pinned release on its own file: {:?}", rep.errors.first()));
            return v;
        }
        Err(e) => {
            v.harness_error = Some(format!("independent reader cannot parse the pinned release's file: {}", e));
            return v;
        }
    }
    // ---- (c) every other page size is refused, without modifying the file
    for other in SIZES.iter().filter(|s| **s != ps) {
        put_file(&path, &img0, len0);
        let before = simos::log_len();
        let opened = catch(|| current::try_open(&path, *other));
        *v.counters.entry("mismatch_opens".into()).or_default() += 1;
        let touched = simos::mutations_since(before);
        let same = simos::file_view(&path).map(|(b, l)| b == img0 && l == len0).unwrap_or(false);
        if let Ok(true) = opened {
            v.violation = Some(fail("compat-mismatch", "page size mismatch", format!("a file with page size {} was opened with page size {} without complaint", ps, other)));
            return v;
        }
        if touched > 0 || !same {
            v.violation = Some(fail("compat-mismatch", "page size mismatch", format!("opening a page size {} file with page size {} was refused but issued {} write/extend/sync call(s)", ps, other, touched)));
            return v;
        }
    }
    // ---- (a) new-format file taken over by the current tree
    put_file(&path, &img0, len0);
    let after = match takeover(case, &path, ps, &model, "file written by the pinned release", &mut v) {
        Some(m) => m,
        None => return v,
    };
    // what the current tree wrote is readable by the pinned release
    match catch(|| pinned::read_all(&path, ps)) {
        Ok(Ok(m)) => {
            if let Some(d) = diff(&m, &after, false) {
                v.violation = Some(fail("compat-layout", "pinned reads current", format!("the pinned release reads different contents from a file continued by the current code (page size {}): {}", ps, d)));
                return v;
            }
            *v.counters.entry("pinned_reads_current".into()).or_default() += 1;
        }
        Ok(Err(e)) => {
            v.violation = Some(fail("compat-layout", "pinned reads current", format!("the pinned release cannot open a file continued by the current code: {}", e)));
            return v;
        }
        Err(p) => {
            v.violation = Some(fail("compat-layout", "pinned reads current", format!("the pinned release panics on a file continued by the current code: {}", p)));
            return v;
        }
    }
    // ---- (b) the same file carrying legacy headers
    let mut legacy = img0.clone();
    if to_legacy(&mut legacy, ps) {
        put_file(&path, &legacy, len0);
        *v.counters.entry("legacy_header_files".into()).or_default() += 1;
        if takeover(case, &path, ps, &model, "file with legacy (0.10) headers", &mut v).is_none() {
            return v;
        }
    }
    // ---- (d) a file created and written by the current code alone conforms to the pinned
    // layout: the independent reader accepts it (magic, version, field order, element sizes)
    // and the pinned release reads the same contents
    let fresh = format!("{}/fresh", dir);
    match catch(|| current::write_history(&fresh, ps, mix(case.seed, 0xF5E5), 3)) {
        Ok(Ok(fm)) => {
            let (mut fb, fl) = simos::file_view(&fresh).unwrap();
            if let Some(h) = fsck::choose_header(&fb, ps) {
                let need = h.num_pages.saturating_mul(ps).min(fl) as usize;
                if fb.len() < need {
                    fb.resize(need, 0);
                }
            }
            match fsck::check(&fb, fl, ps) {
                Ok(rep) if rep.errors.is_empty() && diff(&rep.contents, &fm, false).is_none() => {}
                Ok(rep) => {
                    let why = rep.errors.first().cloned().unwrap_or_else(|| "contents differ".into());
                    v.violation = Some(fail("compat-layout", "fresh file", format!("a file created by the current code (page size {}) does not conform to the pinned layout: {}", ps, why)));
                    return v;
                }
                Err(e) => {
                    v.violation = Some(fail("compat-layout", "fresh file", format!("a file created by the current code (page size {}) does not parse under the pinned layout: {}", ps, e)));
                    return v;
                }
            }
            match catch(|| pinned::read_all(&fresh, ps)) {
                Ok(Ok(m)) if diff(&m, &fm, false).is_none() => {
                    *v.counters.entry("pinned_reads_fresh_current_file".into()).or_default() += 1;
                }
                Ok(Ok(m)) => {
                    v.violation = Some(fail("compat-layout", "fresh file", format!("the pinned release reads different contents from a file created by the current code: {}", diff(&m, &fm, false).unwrap_or_default())));
                    return v;
                }
                Ok(Err(e)) => {
                    v.violation = Some(fail("compat-layout", "fresh file", format!("the pinned release cannot open a file created by the current code: {}", e)));
                    return v;
                }
                Err(p) => {
                    v.violation = Some(fail("compat-layout", "fresh file", format!("the pinned release panics on a file created by the current code: {}", p)));
                    return v;
                }
            }
        }
        Ok(Err(e)) => {
            v.aborted = Some(fail("result", "fresh file", e));
            return v;
        }
        Err(p) => {
            v.aborted = Some(fail("panic", "fresh file", p));
            return v;
        }
    }
    v.sim_events = simos::total_calls();
    let mut h = crate::rng::Fnv::default();
    h.u64(model.digest());
    h.u64(after.digest());
    v.trace = h.0;
    if v.stats.commits == 0 {
        v.stats.commits = 1;
    }
    v.stats.steps += 10;
    if let Some(hf) = crate::seq::HARNESS_FAULT.with(|p| p.borrow_mut().take()) {
        v.harness_error = Some(format!("the harness itself panicked: {}", hf));
    }
    v
}

// ---------------------------------------------------------------------------------------------
// golden images

/// Produce the golden set with the pinned release (run once; the files are committed).
pub fn make_golden(dir: &str) -> Result<(), String> {
    std::fs::create_dir_all(dir).map_err(|e| e.to_string())?;
    let scratch = props::fresh_dir("golden");
    let mut index = Vec::new();
    for ps in SIZES {
        let scratch2 = scratch.clone();
        let (img, len, model) = props::on_fresh_thread(ps, scratch.clone(), move || {
            let path = format!("{}/g{}", scratch2, ps);
            let m = pinned::write_history(&path, ps, 0x601d + ps, 4).expect("pinned write");
            let (img, len) = simos::file_view(&path).unwrap();
            (img, len, m)
        })?;
        let mut img = img;
        img.resize(len as usize, 0);
        // keep only the pages below the high-water mark (the rest is zero fill)
        let h = fsck::choose_header(&img, ps).ok_or("no header")?;
        img.truncate((h.num_pages * ps) as usize);
        let name = format!("pinned-{}.db", ps);
        std::fs::write(format!("{}/{}", dir, name), &img).map_err(|e| e.to_string())?;
        let mut legacy = img.clone();
        to_legacy(&mut legacy, ps);
        let lname = format!("pinned-{}-legacy.db", ps);
        std::fs::write(format!("{}/{}", dir, lname), &legacy).map_err(|e| e.to_string())?;
        index.push(json!({"pagesize": ps, "file": name, "legacy_file": lname, "file_len": len, "digest": model.digest().to_string(),
            "entries": model.count_entries(), "listing": listing(&model)}));
    }
    std::fs::write(format!("{}/index.json", dir), serde_json::to_string_pretty(&json!(index)).unwrap()).map_err(|e| e.to_string())?;
    Ok(())
}

/// flat listing "path/key = len:first bytes" used as the recorded contents of a golden file
pub fn listing(m: &MBucket) -> Vec<String> {
    fn rec(b: &MBucket, p: &str, out: &mut Vec<String>) {
        out.push(format!("{} next_int={}", if p.is_empty() { "/" } else { p }, b.next_int));
        for (k, e) in &b.entries {
            let ks = String::from_utf8_lossy(k);
            match e {
                Entry::Kv(v) => out.push(format!("{}/{} = {}:{}", p, ks, v.len(), crate::model::hex(&v[..v.len().min(8)]))),
                Entry::Sub(s) => rec(s, &format!("{}/{}", p, ks), out),
            }
        }
    }
    let mut out = Vec::new();
    for (k, e) in &m.entries {
        if let Entry::Sub(s) = e {
            rec(s, &format!("/{}", String::from_utf8_lossy(k)), &mut out);
        }
    }
    out
}

/// Golden check: the committed byte-exact images open under the current tree with the
/// recorded contents, accept a commit, and mismatching page sizes are refused.
pub fn check_golden(dir: &str, v: &mut Verdict) {
    let idx: serde_json::Value = match std::fs::read(format!("{}/index.json", dir)).ok().and_then(|b| serde_json::from_slice(&b).ok()) {
        Some(i) => i,
        None => {
            v.harness_error = Some(format!("golden index missing in {}", dir));
            return;
        }
    };
    let scratch = props::fresh_dir("goldenchk");
    for g in idx.as_array().cloned().unwrap_or_default() {
        let ps = g["pagesize"].as_u64().unwrap();
        for key in ["file", "legacy_file"] {
            let name = g[key].as_str().unwrap().to_string();
            let want: Vec<String> = g["listing"].as_array().unwrap().iter().map(|x| x.as_str().unwrap().to_string()).collect();
            let len = g["file_len"].as_u64().unwrap();
            let bytes = match std::fs::read(format!("{}/{}", dir, name)) {
                Ok(b) => b,
                Err(e) => {
                    v.harness_error = Some(format!("golden file {}: {}", name, e));
                    return;
                }
            };
            let scratch2 = scratch.clone();
            let name2 = name.clone();
            let r = props::on_fresh_thread(ps, scratch.clone(), move || -> Result<(), (String, String)> {
                let path = format!("{}/{}", scratch2, name2);
                put_file(&path, &bytes, len);
                let got = catch(|| current::read_all(&path, ps));
                let m = match got {
                    Ok(Ok(m)) => m,
                    Ok(Err(e)) => return Err(("compat-open".into(), format!("golden {}: {}", name2, e))),
                    Err(p) => return Err(("compat-open".into(), format!("golden {}: panicked: {}", name2, p))),
                };
                let have = listing(&m);
                if have != want {
                    let i = have.iter().zip(want.iter()).position(|(a, b)| a != b).unwrap_or(have.len().min(want.len()));
                    return Err((
                        "compat-contents".into(),
                        format!("golden {}: contents differ from the recorded listing at line {}: {:?} vs {:?}", name2, i, have.get(i), want.get(i)),
                    ));
                }
                // accepts a further commit, and the result still parses under the pinned layout
                let r = catch(|| -> Result<(), String> {
                    let db = jammdb::OpenOptions::new().pagesize(ps).open(&path).map_err(|e| e.to_string())?;
                    let tx = db.tx(true).map_err(|e| e.to_string())?;
                    tx.get_or_create_bucket("golden-cont").map_err(|e| e.to_string())?.put("k", vec![1u8; 700]).map_err(|e| e.to_string())?;
                    tx.commit().map_err(|e| e.to_string())
                });
                match r {
                    Ok(Ok(())) => {}
                    Ok(Err(e)) => return Err(("compat-continue".into(), format!("golden {}: commit failed: {}", name2, e))),
                    Err(p) => return Err(("compat-continue".into(), format!("golden {}: commit panicked: {}", name2, p))),
                }
                let (mut b, l) = simos::file_view(&path).unwrap();
                if let Some(h) = fsck::choose_header(&b, ps) {
                    let need = h.num_pages.saturating_mul(ps).min(l) as usize;
                    if b.len() < need {
                        b.resize(need, 0);
                    }
                }
                match fsck::check(&b, l, ps) {
                    Ok(rep) if rep.errors.is_empty() => Ok(()),
                    Ok(rep) => Err(("compat-layout".into(), format!("golden {} after a commit by the current code: {}", name2, rep.errors[0]))),
                    Err(e) => Err(("compat-layout".into(), format!("golden {} after a commit by the current code: {}", name2, e))),
                }
            });
            match r {
                Ok(Ok(())) => *v.counters.entry("golden_files_checked".into()).or_default() += 1,
                Ok(Err((o, d))) => {
                    v.violation = Some(fail(&o, "golden", d));
                    return;
                }
                Err(e) => {
                    v.harness_error = Some(e);
                    return;
                }
            }
        }
    }
}
