//! Known findings: genuine defects recorded rather than repaired. The file is committed and
//! never written at run time. A minimised violation that satisfies an open entry's matcher is
//! counted, not reported; any other violation of the same property still is.
use crate::case::Case;
use crate::seq::Violation;
use serde_json::Value;

#[derive(Clone, Debug)]
pub struct OpenFinding {
    pub id: String,
    pub property: String,
    pub oracle: String,
    pub site_contains: String,
    pub detail_contains: String,
    pub matcher: String,
    pub what_fails: String,
    pub replay: String,
}

#[derive(Clone, Debug, Default)]
pub struct Known {
    pub open: Vec<OpenFinding>,
    pub fixed: Vec<String>,
}

pub fn load(path: &str) -> Known {
    let v: Value = match std::fs::read(path).ok().and_then(|b| serde_json::from_slice(&b).ok()) {
        Some(v) => v,
        None => return Known::default(),
    };
    let s = |x: &Value, k: &str| x.get(k).and_then(|y| y.as_str()).unwrap_or("").to_string();
    let open = v
        .get("open")
        .and_then(|o| o.as_array())
        .map(|a| {
            a.iter()
                .map(|x| OpenFinding {
                    id: s(x, "id"),
                    property: s(x, "property"),
                    oracle: s(x, "oracle"),
                    site_contains: s(x, "site_contains"),
                    detail_contains: s(x, "detail_contains"),
                    matcher: s(x, "matcher"),
                    what_fails: s(x, "what_fails"),
                    replay: s(x, "replay"),
                })
                .collect()
        })
        .unwrap_or_default();
    let fixed = v
        .get("fixed")
        .and_then(|o| o.as_array())
        .map(|a| a.iter().filter_map(|x| x.as_str().map(|s| s.to_string())).collect())
        .unwrap_or_default();
    Known { open, fixed }
}

/// Witness predicates over the minimised counterexample, by name.
fn witness(name: &str, _v: &Violation, case: &Case) -> bool {
    use crate::step::Step;
    let steps = case.steps.as_deref().unwrap_or(&[]);
    match name {
        "" | "any" => true,
        // the history deletes a bucket and later, in the same transaction, one of its ancestors
        "nested_then_ancestor_delete" => {
            let mut deleted: Vec<Vec<Vec<u8>>> = Vec::new();
            for s in steps {
                match s {
                    Step::Begin { .. } | Step::Commit | Step::Drop | Step::Reopen => deleted.clear(),
                    Step::DeleteBucket { path, name } => {
                        let mut full = path.clone();
                        full.push(name.bytes());
                        if deleted.iter().any(|d| d.len() > full.len() && d.starts_with(&full)) {
                            return true;
                        }
                        deleted.push(full);
                    }
                    _ => {}
                }
            }
            false
        }
        _ => false,
    }
}

pub fn classify(k: &Known, prop: &str, v: &Violation, case: &Case) -> Option<String> {
    for f in &k.open {
        if f.property != prop {
            continue;
        }
        if !f.oracle.is_empty() && f.oracle != v.oracle {
            continue;
        }
        if !f.site_contains.is_empty() && !v.site.contains(&f.site_contains) {
            continue;
        }
        if !f.detail_contains.is_empty() && !v.detail.contains(&f.detail_contains) {
            continue;
        }
        if !witness(&f.matcher, v, case) {
            continue;
        }
        return Some(f.id.clone());
    }
    None
}

/// Execute the stored replay of an open finding: does it still fail the same way?
pub fn reproduces(f: &OpenFinding, root: &str) -> bool {
    let path = if f.replay.starts_with('/') { f.replay.clone() } else { format!("{}/{}", root, f.replay) };
    let doc: Value = match std::fs::read(&path).ok().and_then(|b| serde_json::from_slice(&b).ok()) {
        Some(v) => v,
        None => return false,
    };
    let case = match Case::from_json(&doc) {
        Some(c) => c,
        None => return false,
    };
    let v = crate::props::execute(&case);
    match (&v.violation, &case.expect) {
        (Some(x), Some((o, s))) => x.oracle == *o && x.site == *s,
        (Some(_), None) => true,
        _ => false,
    }
}
