//! SimOS: the system-call seam.
//!
//! The harness executable defines the libc entry points jammdb (through std, memmap2 and
//! rustix's libc backend) uses to reach the disk.  Calls on descriptors whose path lies under
//! the run's scratch prefix are *tracked*: logged, subject to the fault plan, and (under
//! shuttle) scheduling points.  All other descriptors pass straight through to the kernel.
//!
//! Nothing in here draws from a PRNG or reads a clock; a fault is a pure function of
//! (history, plan).
#![allow(clippy::missing_safety_doc)]

use libc::{c_int, c_long, c_uint, c_void, off64_t, size_t, ssize_t};
use std::cell::Cell;
use std::collections::BTreeMap as HashMap;
use std::sync::atomic::{AtomicBool, AtomicU64, AtomicUsize, Ordering};
use std::sync::Mutex;

// ---------------------------------------------------------------------------------------------
// Events

#[derive(Clone, Debug, PartialEq, Eq)]
pub enum Marker {
    TxBegin { rw: bool },
    CommitCall { n: u32 },
    CommitReturn { n: u32, ok: bool },
    TxDrop,
    OpenCall,
    OpenReturn { ok: bool },
    DbClose,
    Note(u32),
}

#[derive(Clone, Debug, PartialEq, Eq)]
pub enum Ev {
    Open { fid: u32, create: bool },
    Extend { fid: u32, len: u64 },
    Write { fid: u32, off: u64, data: Vec<u8> },
    Sync { fid: u32 },
    Map { fid: u32, len: u64 },
    Lock { fid: u32, op: i32 },
    Close { fid: u32 },
    Mark(Marker),
}

#[derive(Clone, Copy, Debug, PartialEq, Eq)]
pub enum Call {
    Open,
    Write,
    Lseek,
    Fsync,
    Fallocate,
    Mmap,
    Flock,
    Close,
    Ftruncate,
}

impl Call {
    pub fn name(self) -> &'static str {
        match self {
            Call::Open => "open",
            Call::Write => "write",
            Call::Lseek => "lseek",
            Call::Fsync => "fsync",
            Call::Fallocate => "fallocate",
            Call::Mmap => "mmap",
            Call::Flock => "flock",
            Call::Close => "close",
            Call::Ftruncate => "ftruncate",
        }
    }
    pub fn from_name(s: &str) -> Option<Call> {
        Some(match s {
            "open" => Call::Open,
            "write" => Call::Write,
            "lseek" => Call::Lseek,
            "fsync" => Call::Fsync,
            "fallocate" => Call::Fallocate,
            "mmap" => Call::Mmap,
            "flock" => Call::Flock,
            "close" => Call::Close,
            "ftruncate" => Call::Ftruncate,
            _ => return None,
        })
    }
}

#[derive(Clone, Copy, Debug, PartialEq, Eq)]
pub enum Action {
    /// the call does nothing and fails with this errno
    Errno(i32),
    /// (write only) writes `num/den` of the buffer (at least 1 byte, less than all), returns
    /// that count, and the *next* write on the same descriptor fails with the errno
    ShortThenErr { num: u32, den: u32, errno: i32 },
    /// (write only) writes a prefix and returns its length; benign, write_all continues
    ShortOnly { num: u32, den: u32 },
    /// fails once with EINTR; benign, std retries
    Eintr,
    /// the disk is full (or the device gone) from this call on: this and every later write,
    /// extension and sync fails with the errno until the plan is disarmed
    Sticky(i32),
}

#[derive(Clone, Copy, Debug, PartialEq, Eq)]
pub struct Fault {
    /// index among tracked calls since `arm`
    pub nth: u64,
    pub action: Action,
}

#[derive(Clone, Debug, Default)]
pub struct FileState {
    pub path: Vec<u8>,
    /// page-cache view: bytes [0, cache.len()) as written; beyond that zeros up to `len`
    pub cache: Vec<u8>,
    pub len: u64,
    /// lock table: (open file description id, exclusive?)
    pub locks: Vec<(u32, bool)>,
}

struct FdState {
    fid: u32,
    ofd: u32,
    /// a ShortThenErr fault leaves the errno for the next write here
    poisoned: Option<i32>,
}

#[derive(Default)]
struct Sim {
    prefix: Vec<u8>,
    fds: HashMap<i32, FdState>,
    paths: HashMap<Vec<u8>, u32>,
    files: Vec<FileState>,
    next_ofd: u32,
    log: Vec<Ev>,
    logging: bool,
    /// tracked calls since arm()
    calls: u64,
    call_kinds: Vec<Call>,
    plan: Vec<Fault>,
    sticky: Option<i32>,
    fired: Vec<(u64, Call, Action)>,
    total_calls: u64,
    /// writes through descriptors we do not model (mmap MAP_SHARED|PROT_WRITE etc.)
    writable_maps: u64,
    /// live mappings of tracked files: start address -> (file, open file description). A
    /// mapping keeps its open file description alive, and with it the flock held through it,
    /// after the descriptor is closed (as in the kernel).
    maps: HashMap<usize, (u32, u32)>,
}

static SIM: Mutex<Option<Sim>> = Mutex::new(None);
static ACTIVE: AtomicBool = AtomicBool::new(false);
// getrandom state lives outside SIM: std asks for hash keys while SIM may be locked
static RNG: AtomicU64 = AtomicU64::new(0);
static GETRANDOM_CALLS: AtomicU64 = AtomicU64::new(0);
/// While the harness holds a reader on the thread that commits, growing the file would block
/// forever on the map lock (documented misuse of the library). The harness forbids growth
/// for such commits: the extension fails with ENOSPC and the run is skipped, not judged.
static GROWTH_BLOCK: AtomicBool = AtomicBool::new(false);
static GROWTH_BLOCKED: AtomicU64 = AtomicU64::new(0);
/// one-shot: the next extension of a tracked file that is still empty fails with this errno
/// (the disk is full when a new database is being created); 0 = off
static FAIL_FIRST_EXTEND: AtomicU64 = AtomicU64::new(0);
static FIRST_EXTEND_FAILED: AtomicU64 = AtomicU64::new(0);
/// a blocked flock returns EINTR (a signal arrived) after this many waits; 0 = never
static FLOCK_EINTR_AFTER: AtomicU64 = AtomicU64::new(0);
static FLOCK_EINTRS: AtomicU64 = AtomicU64::new(0);
/// optional scheduling hook (set by the shuttle engine); called before every tracked call
static YIELD_HOOK: AtomicUsize = AtomicUsize::new(0);
/// called while a simulated blocking call (flock) has to wait: must tell the scheduler that
/// the caller cannot make progress (a yield *request*, unlike the plain switch above)
static SPIN_HOOK: AtomicUsize = AtomicUsize::new(0);

thread_local! {
    static BYPASS: Cell<u32> = const { Cell::new(0) };
    /// set by `reset`: this OS thread executes a simulated run (shuttle tasks are coroutines on
    /// the same thread). Sleeps and clock reads of such a thread are simulated.
    static SIMULATED: Cell<bool> = const { Cell::new(false) };
    /// the simulated clock of this thread, in nanoseconds since its reset
    static SIM_CLOCK_NS: Cell<u64> = const { Cell::new(0) };
}
/// sleeps executed as simulated time (evidence: a change that adds a back-off or a timeout
/// must not slow the simulation down or make it depend on the machine)
static SIM_SLEEPS: AtomicU64 = AtomicU64::new(0);
static SIM_SLEPT_NS: AtomicU64 = AtomicU64::new(0);

pub fn simulated_sleeps() -> (u64, u64) {
    (SIM_SLEEPS.load(Ordering::SeqCst), SIM_SLEPT_NS.load(Ordering::SeqCst))
}

fn on_sim_thread() -> bool {
    SIMULATED.with(|s| s.get()) && !bypassed()
}

fn sim_now_ns() -> u64 {
    // every reading advances the clock a little, so that polling loops with a deadline end
    SIM_CLOCK_NS.with(|c| {
        c.set(c.get() + 1_000);
        c.get()
    })
}

fn sim_sleep_ns(ns: u64) {
    SIM_SLEEPS.fetch_add(1, Ordering::SeqCst);
    SIM_SLEPT_NS.fetch_add(ns, Ordering::SeqCst);
    SIM_CLOCK_NS.with(|c| c.set(c.get().saturating_add(ns)));
    // a sleeping task lets the others run: a yield request under the scheduler
    spin_wait();
}

const SIM_EPOCH_S: i64 = 1_700_000_000;

/// Time is simulated on threads that execute a run: a sleep costs nothing and advances that
/// thread's clock, which `clock_gettime` then reports. jammdb itself has no timers; this seam
/// exists so that a change that introduces one (a back-off, a lock timeout) stays inside
/// the simulation.
#[no_mangle]
pub unsafe extern "C" fn nanosleep(req: *const libc::timespec, rem: *mut libc::timespec) -> c_int {
    if !on_sim_thread() || req.is_null() {
        return libc::syscall(libc::SYS_nanosleep, req, rem) as c_int;
    }
    let r = &*req;
    sim_sleep_ns((r.tv_sec.max(0) as u64).saturating_mul(1_000_000_000).saturating_add(r.tv_nsec.max(0) as u64));
    0
}

#[no_mangle]
pub unsafe extern "C" fn clock_nanosleep(clk: libc::clockid_t, flags: c_int, req: *const libc::timespec, rem: *mut libc::timespec) -> c_int {
    if !on_sim_thread() || req.is_null() {
        // returns the error number, not -1
        let r = libc::syscall(libc::SYS_clock_nanosleep, clk, flags, req, rem);
        return if r == 0 { 0 } else { *libc::__errno_location() };
    }
    let r = &*req;
    let mut ns = (r.tv_sec.max(0) as u64).saturating_mul(1_000_000_000).saturating_add(r.tv_nsec.max(0) as u64);
    if flags & libc::TIMER_ABSTIME != 0 {
        let epoch = if clk == libc::CLOCK_REALTIME { SIM_EPOCH_S as u64 * 1_000_000_000 } else { 0 };
        let now = SIM_CLOCK_NS.with(|c| c.get()) + epoch;
        ns = ns.saturating_sub(now);
    }
    sim_sleep_ns(ns);
    0
}

#[no_mangle]
pub unsafe extern "C" fn usleep(us: c_uint) -> c_int {
    if !on_sim_thread() {
        let ts = libc::timespec { tv_sec: (us / 1_000_000) as _, tv_nsec: ((us % 1_000_000) * 1000) as _ };
        return libc::syscall(libc::SYS_nanosleep, &ts as *const libc::timespec, std::ptr::null_mut::<libc::timespec>()) as c_int;
    }
    sim_sleep_ns(us as u64 * 1000);
    0
}

#[no_mangle]
pub unsafe extern "C" fn clock_gettime(clk: libc::clockid_t, ts: *mut libc::timespec) -> c_int {
    let simulated = matches!(clk, libc::CLOCK_MONOTONIC | libc::CLOCK_REALTIME | libc::CLOCK_BOOTTIME | libc::CLOCK_MONOTONIC_RAW | libc::CLOCK_MONOTONIC_COARSE | libc::CLOCK_REALTIME_COARSE);
    if !on_sim_thread() || !simulated || ts.is_null() {
        return libc::syscall(libc::SYS_clock_gettime, clk, ts) as c_int;
    }
    let ns = sim_now_ns();
    let epoch = if matches!(clk, libc::CLOCK_REALTIME | libc::CLOCK_REALTIME_COARSE) { SIM_EPOCH_S } else { 0 };
    (*ts).tv_sec = (epoch + (ns / 1_000_000_000) as i64) as _;
    (*ts).tv_nsec = (ns % 1_000_000_000) as _;
    0
}

fn with<R>(f: impl FnOnce(&mut Sim) -> R) -> R {
    let mut g = SIM.lock().unwrap_or_else(|e| e.into_inner());
    if g.is_none() {
        *g = Some(Sim::default());
    }
    f(g.as_mut().unwrap())
}

fn set_errno(e: i32) {
    unsafe { *libc::__errno_location() = e }
}

fn maybe_yield() {
    let p = YIELD_HOOK.load(Ordering::Relaxed);
    if p != 0 {
        let f: fn() = unsafe { std::mem::transmute::<usize, fn()>(p) };
        f();
    }
}

pub fn set_spin_hook(f: Option<fn()>) {
    SPIN_HOOK.store(f.map(|f| f as usize).unwrap_or(0), Ordering::SeqCst);
}

fn spin_wait() {
    let p = SPIN_HOOK.load(Ordering::Relaxed);
    if p != 0 {
        let f: fn() = unsafe { std::mem::transmute::<usize, fn()>(p) };
        f();
    } else {
        maybe_yield();
    }
}

pub fn set_yield_hook(f: Option<fn()>) {
    YIELD_HOOK.store(f.map(|f| f as usize).unwrap_or(0), Ordering::SeqCst);
}

/// Processes that execute runs get an address-space limit (VERIF_MEM_GB, default 16): a change
/// that makes the code under test allocate without bound then dies at once with an allocation
/// failure (reported as a run that kills its process) instead of eating the machine's memory.
pub fn limit_address_space() {
    let gb: u64 = std::env::var("VERIF_MEM_GB").ok().and_then(|s| s.parse().ok()).unwrap_or(16);
    if gb == 0 {
        return;
    }
    let lim = libc::rlimit { rlim_cur: gb << 30, rlim_max: gb << 30 };
    unsafe {
        libc::setrlimit(libc::RLIMIT_AS, &lim);
    }
}

// ---------------------------------------------------------------------------------------------
// Harness-facing API

/// Everything the harness does itself on scratch files runs under bypass.
pub fn bypass<R>(f: impl FnOnce() -> R) -> R {
    BYPASS.with(|b| b.set(b.get() + 1));
    struct G;
    impl Drop for G {
        fn drop(&mut self) {
            BYPASS.with(|b| b.set(b.get() - 1));
        }
    }
    let _g = G;
    f()
}

fn bypassed() -> bool {
    BYPASS.with(|b| b.get() > 0)
}

/// Start tracking paths under `prefix`; clears all state.
pub fn reset(prefix: &str, hash_seed: u64) {
    with(|s| {
        *s = Sim::default();
        s.prefix = prefix.as_bytes().to_vec();
        s.logging = true;
    });
    RNG.store(hash_seed, Ordering::SeqCst);
    ACTIVE.store(true, Ordering::SeqCst);
    SIMULATED.with(|x| x.set(true));
    SIM_CLOCK_NS.with(|c| c.set(0));
}

pub fn set_hash_seed(seed: u64) {
    RNG.store(seed, Ordering::SeqCst);
    ACTIVE.store(true, Ordering::SeqCst);
}

pub fn set_flock_eintr_after(n: u64) {
    FLOCK_EINTR_AFTER.store(n, Ordering::SeqCst);
}

pub fn flock_eintrs() -> u64 {
    FLOCK_EINTRS.load(Ordering::SeqCst)
}

pub fn set_fail_first_extend(errno: i32) {
    FAIL_FIRST_EXTEND.store(errno as u64, Ordering::SeqCst);
}

pub fn first_extend_failures() -> u64 {
    FIRST_EXTEND_FAILED.load(Ordering::SeqCst)
}

pub fn set_growth_block(on: bool) {
    GROWTH_BLOCK.store(on, Ordering::SeqCst);
}

pub fn growth_blocked() -> u64 {
    GROWTH_BLOCKED.load(Ordering::SeqCst)
}

pub fn set_logging(on: bool) {
    with(|s| s.logging = on);
}

pub fn mark(m: Marker) {
    with(|s| {
        if s.logging {
            s.log.push(Ev::Mark(m))
        }
    });
}

pub fn log_len() -> usize {
    with(|s| s.log.len())
}

pub fn log_slice(from: usize) -> Vec<Ev> {
    with(|s| s.log[from.min(s.log.len())..].to_vec())
}

/// FNV-1a over every logged event including the bytes written (determinism self-check)
pub fn log_hash() -> u64 {
    with(|s| {
        let mut h: u64 = 0xcbf2_9ce4_8422_2325;
        let mut w = |b: &[u8]| {
            for x in b {
                h ^= *x as u64;
                h = h.wrapping_mul(0x0000_0100_0000_01B3);
            }
        };
        for e in &s.log {
            match e {
                Ev::Open { fid, create } => w(&[1, *fid as u8, *create as u8]),
                Ev::Extend { fid, len } => {
                    w(&[2, *fid as u8]);
                    w(&len.to_le_bytes())
                }
                Ev::Write { fid, off, data } => {
                    // offset, length and the page header of every write. Not the whole buffer:
                    // jammdb serialises pages into arena memory it does not zero, so the
                    // padding after the last element is whatever the allocator held.
                    w(&[3, *fid as u8]);
                    w(&off.to_le_bytes());
                    w(&(data.len() as u64).to_le_bytes());
                    // id and type, then count and overflow; bytes 9..16 are struct padding
                    // (uninitialised: they hold stray heap bytes that differ per process)
                    w(&data[..data.len().min(9)]);
                    if data.len() >= 32 {
                        w(&data[16..32]);
                    }
                }
                Ev::Sync { fid } => w(&[4, *fid as u8]),
                Ev::Map { fid, len } => {
                    w(&[5, *fid as u8]);
                    w(&len.to_le_bytes())
                }
                Ev::Lock { fid, op } => w(&[6, *fid as u8, *op as u8]),
                Ev::Close { fid } => w(&[7, *fid as u8]),
                Ev::Mark(_) => w(&[8]),
            }
        }
        h
    })
}

pub fn take_log() -> Vec<Ev> {
    with(|s| std::mem::take(&mut s.log))
}

/// Count of Write/Extend/Sync events in log[from..]
pub fn mutations_since(from: usize) -> usize {
    with(|s| {
        s.log[from.min(s.log.len())..]
            .iter()
            .filter(|e| matches!(e, Ev::Write { .. } | Ev::Extend { .. } | Ev::Sync { .. }))
            .count()
    })
}

/// Bytes handed to write calls in log[from..]
pub fn bytes_written_since(from: usize) -> u64 {
    with(|s| {
        s.log[from.min(s.log.len())..]
            .iter()
            .map(|e| match e {
                Ev::Write { data, .. } => data.len() as u64,
                _ => 0,
            })
            .sum()
    })
}

pub fn arm(plan: Vec<Fault>) {
    with(|s| {
        s.calls = 0;
        s.call_kinds.clear();
        s.sticky = None;
        s.plan = plan;
    });
}

pub fn disarm() -> (u64, Vec<Call>) {
    with(|s| {
        s.plan.clear();
        s.sticky = None;
        (s.calls, std::mem::take(&mut s.call_kinds))
    })
}

pub fn fired() -> Vec<(u64, Call, Action)> {
    with(|s| s.fired.clone())
}

pub fn total_calls() -> u64 {
    with(|s| s.total_calls)
}

pub fn getrandom_calls() -> u64 {
    GETRANDOM_CALLS.load(Ordering::SeqCst)
}

pub fn writable_maps() -> u64 {
    with(|s| s.writable_maps)
}

/// Page-cache view of a tracked file (bytes as written, logical length).
pub fn file_view(path: &str) -> Option<(Vec<u8>, u64)> {
    with(|s| {
        s.paths
            .get(path.as_bytes())
            .map(|fid| (s.files[*fid as usize].cache.clone(), s.files[*fid as usize].len))
    })
}

pub fn file_view_prefix(path: &str, n: usize) -> Option<(Vec<u8>, u64)> {
    with(|s| {
        s.paths.get(path.as_bytes()).map(|fid| {
            let f = &s.files[*fid as usize];
            let mut v = f.cache[..n.min(f.cache.len())].to_vec();
            v.resize(n.min(f.len as usize), 0);
            (v, f.len)
        })
    })
}

/// Forget a tracked path (the harness deleted or replaced the file).
pub fn forget(path: &str) {
    with(|s| {
        if let Some(fid) = s.paths.remove(path.as_bytes()) {
            s.files[fid as usize] = FileState::default();
        }
    });
}

/// Pre-register a file the harness wrote itself (crash image, golden file) so that the shadow
/// view starts from its real contents.
pub fn adopt(path: &str, content: &[u8], len: u64) {
    with(|s| {
        let fid = match s.paths.get(path.as_bytes()) {
            Some(f) => *f,
            None => {
                let fid = s.files.len() as u32;
                s.files.push(FileState::default());
                s.paths.insert(path.as_bytes().to_vec(), fid);
                fid
            }
        };
        let f = &mut s.files[fid as usize];
        f.path = path.as_bytes().to_vec();
        f.cache = content.to_vec();
        f.len = len;
        f.locks.clear();
    });
}

/// A write made by the harness in the role of *another program* (an older release of the
/// library re-stamping the headers, say) while the database is closed: unlike `damage` it is an
/// ordinary, logged and synced write, so crash images synthesised from the log contain it.
pub fn foreign_write(path: &str, off: u64, bytes: &[u8]) -> bool {
    if !damage(path, off, bytes) {
        return false;
    }
    with(|s| {
        if let Some(fid) = s.paths.get(path.as_bytes()).copied() {
            if s.logging {
                s.log.push(Ev::Write { fid, off, data: bytes.to_vec() });
                s.log.push(Ev::Sync { fid });
            }
        }
    });
    true
}

/// Media damage at rest: overwrite bytes of a tracked, closed file behind the code's back. The
/// real file and the shadow view change together; nothing is logged (no call was made).
pub fn damage(path: &str, off: u64, bytes: &[u8]) -> bool {
    use std::os::unix::fs::FileExt;
    let ok = bypass(|| std::fs::OpenOptions::new().write(true).open(path).and_then(|f| f.write_all_at(bytes, off)).is_ok());
    if !ok {
        return false;
    }
    with(|s| {
        if let Some(fid) = s.paths.get(path.as_bytes()).copied() {
            let f = &mut s.files[fid as usize];
            let end = off as usize + bytes.len();
            if f.cache.len() < end && (end as u64) <= f.len {
                f.cache.resize(end, 0);
            }
            if f.cache.len() >= end {
                f.cache[off as usize..end].copy_from_slice(bytes);
            }
        }
    });
    true
}

/// Compare the shadow view with the real file; false = the seam missed a write (harness error).
pub fn shadow_matches(path: &str) -> Result<(), String> {
    let (cache, len) = match file_view(path) {
        Some(v) => v,
        None => return Ok(()),
    };
    let real = bypass(|| std::fs::read(path)).map_err(|e| format!("read {}: {}", path, e))?;
    if real.len() as u64 != len {
        return Err(format!("length: real {} shadow {}", real.len(), len));
    }
    let n = cache.len().min(real.len());
    if real[..n] != cache[..n] {
        let i = (0..n).find(|i| real[*i] != cache[*i]).unwrap();
        return Err(format!("content differs at offset {}", i));
    }
    if real[n..].iter().any(|b| *b != 0) {
        return Err("real file has data beyond the shadow extent".into());
    }
    Ok(())
}

pub fn open_fd_count() -> usize {
    with(|s| s.fds.len())
}

pub fn lock_holders(path: &str) -> usize {
    with(|s| {
        s.paths
            .get(path.as_bytes())
            .map(|fid| s.files[*fid as usize].locks.len())
            .unwrap_or(0)
    })
}

// ---------------------------------------------------------------------------------------------
// The seam

enum Decision {
    Pass,
    Fail(i32),
    Short { num: u32, den: u32, then: Option<i32> },
}

/// Count a tracked call and consult the plan.
fn decide(s: &mut Sim, call: Call) -> Decision {
    let idx = s.calls;
    s.calls += 1;
    s.total_calls += 1;
    if s.call_kinds.len() < 100_000 {
        s.call_kinds.push(call);
    }
    if let Some(e) = s.sticky {
        if matches!(call, Call::Write | Call::Fallocate | Call::Ftruncate | Call::Fsync) {
            return Decision::Fail(e);
        }
    }
    if let Some(pos) = s.plan.iter().position(|f| f.nth == idx) {
        let f = s.plan.remove(pos);
        s.fired.push((idx, call, f.action));
        return match f.action {
            Action::Errno(e) => Decision::Fail(e),
            Action::Sticky(e) => {
                s.sticky = Some(e);
                Decision::Fail(e)
            }
            Action::Eintr => Decision::Fail(libc::EINTR),
            Action::ShortThenErr { num, den, errno } => {
                if call == Call::Write {
                    Decision::Short { num, den, then: Some(errno) }
                } else {
                    Decision::Fail(errno)
                }
            }
            Action::ShortOnly { num, den } => {
                if call == Call::Write {
                    Decision::Short { num, den, then: None }
                } else {
                    Decision::Pass
                }
            }
        };
    }
    Decision::Pass
}

fn tracked(fd: c_int) -> bool {
    if !ACTIVE.load(Ordering::Relaxed) {
        return false;
    }
    with(|s| s.fds.contains_key(&fd))
}

unsafe fn cstr_bytes<'a>(p: *const libc::c_char) -> &'a [u8] {
    std::ffi::CStr::from_ptr(p).to_bytes()
}

unsafe fn do_open(dirfd: c_int, path: *const libc::c_char, flags: c_int, mode: c_uint) -> c_int {
    let raw = |p: *const libc::c_char| libc::syscall(libc::SYS_openat, dirfd, p, flags, mode) as c_int;
    if !ACTIVE.load(Ordering::Relaxed) || bypassed() || path.is_null() {
        return raw(path);
    }
    let pb = cstr_bytes(path).to_vec();
    let is_tracked = with(|s| !s.prefix.is_empty() && pb.starts_with(&s.prefix));
    if !is_tracked {
        return raw(path);
    }
    maybe_yield();
    let d = with(|s| decide(s, Call::Open));
    if let Decision::Fail(e) = d {
        set_errno(e);
        return -1;
    }
    let fd = raw(path);
    if fd < 0 {
        return fd;
    }
    let created = flags & libc::O_CREAT != 0;
    with(|s| {
        let fid = match s.paths.get(&pb) {
            Some(f) => *f,
            None => {
                let fid = s.files.len() as u32;
                s.files.push(FileState { path: pb.clone(), ..Default::default() });
                s.paths.insert(pb.clone(), fid);
                fid
            }
        };
        if flags & libc::O_TRUNC != 0 {
            s.files[fid as usize].cache.clear();
            s.files[fid as usize].len = 0;
        }
        let ofd = s.next_ofd;
        s.next_ofd += 1;
        s.fds.insert(fd, FdState { fid, ofd, poisoned: None });
        if s.logging {
            s.log.push(Ev::Open { fid, create: created });
        }
    });
    fd
}

#[no_mangle]
pub unsafe extern "C" fn open64(path: *const libc::c_char, flags: c_int, mode: c_uint) -> c_int {
    do_open(libc::AT_FDCWD, path, flags, mode)
}

#[no_mangle]
pub unsafe extern "C" fn open(path: *const libc::c_char, flags: c_int, mode: c_uint) -> c_int {
    do_open(libc::AT_FDCWD, path, flags, mode)
}

#[no_mangle]
pub unsafe extern "C" fn openat64(d: c_int, path: *const libc::c_char, flags: c_int, mode: c_uint) -> c_int {
    do_open(d, path, flags, mode)
}

#[no_mangle]
pub unsafe extern "C" fn openat(d: c_int, path: *const libc::c_char, flags: c_int, mode: c_uint) -> c_int {
    do_open(d, path, flags, mode)
}

/// rename / unlink of tracked paths: the path table follows the file (descriptors that are
/// already open keep their file, as in the kernel). jammdb does neither today; a change that
/// builds a file aside and renames it into place stays inside the simulation this way.
unsafe fn path_tracked(p: *const libc::c_char) -> Option<Vec<u8>> {
    if !ACTIVE.load(Ordering::Relaxed) || bypassed() || p.is_null() {
        return None;
    }
    let pb = cstr_bytes(p).to_vec();
    if with(|s| !s.prefix.is_empty() && pb.starts_with(&s.prefix)) {
        Some(pb)
    } else {
        None
    }
}

unsafe fn do_rename(od: c_int, old: *const libc::c_char, nd: c_int, new: *const libc::c_char, flags: c_uint) -> c_int {
    let (a, b) = (path_tracked(old), path_tracked(new));
    if a.is_some() || b.is_some() {
        maybe_yield();
    }
    let r = libc::syscall(libc::SYS_renameat2, od, old, nd, new, flags) as c_int;
    if r == 0 {
        with(|s| {
            s.total_calls += 1;
            let moved = a.as_ref().and_then(|a| s.paths.remove(a));
            if let Some(b) = &b {
                s.paths.remove(b);
                if let Some(fid) = moved {
                    s.files[fid as usize].path = b.clone();
                    s.paths.insert(b.clone(), fid);
                }
            }
        });
    }
    r
}

#[no_mangle]
pub unsafe extern "C" fn rename(old: *const libc::c_char, new: *const libc::c_char) -> c_int {
    do_rename(libc::AT_FDCWD, old, libc::AT_FDCWD, new, 0)
}

#[no_mangle]
pub unsafe extern "C" fn renameat(od: c_int, old: *const libc::c_char, nd: c_int, new: *const libc::c_char) -> c_int {
    do_rename(od, old, nd, new, 0)
}

#[no_mangle]
pub unsafe extern "C" fn renameat2(od: c_int, old: *const libc::c_char, nd: c_int, new: *const libc::c_char, flags: c_uint) -> c_int {
    do_rename(od, old, nd, new, flags)
}

unsafe fn do_unlink(d: c_int, p: *const libc::c_char, flags: c_int) -> c_int {
    let a = path_tracked(p);
    if a.is_some() {
        maybe_yield();
    }
    let r = libc::syscall(libc::SYS_unlinkat, d, p, flags) as c_int;
    if r == 0 {
        if let Some(a) = a {
            with(|s| {
                s.total_calls += 1;
                s.paths.remove(&a);
            });
        }
    }
    r
}

#[no_mangle]
pub unsafe extern "C" fn unlink(p: *const libc::c_char) -> c_int {
    do_unlink(libc::AT_FDCWD, p, 0)
}

#[no_mangle]
pub unsafe extern "C" fn unlinkat(d: c_int, p: *const libc::c_char, flags: c_int) -> c_int {
    do_unlink(d, p, flags)
}

/// A duplicated descriptor shares the open file description of the original (one flock, one
/// file offset): `dup`, `dup2`, `dup3` and `fcntl(F_DUPFD[_CLOEXEC])`, which is what
/// `File::try_clone` uses.
fn record_dup(old: c_int, new: c_int) {
    if new < 0 || !tracked(old) {
        return;
    }
    with(|s| {
        if let Some(st) = s.fds.get(&old) {
            let copy = FdState { fid: st.fid, ofd: st.ofd, poisoned: None };
            s.fds.insert(new, copy);
            s.total_calls += 1;
        }
    });
}

#[no_mangle]
pub unsafe extern "C" fn fcntl(fd: c_int, cmd: c_int, arg: usize) -> c_int {
    let r = libc::syscall(libc::SYS_fcntl, fd, cmd, arg) as c_int;
    if (cmd == libc::F_DUPFD || cmd == libc::F_DUPFD_CLOEXEC) && ACTIVE.load(Ordering::Relaxed) && !bypassed() {
        record_dup(fd, r);
    }
    r
}

#[no_mangle]
pub unsafe extern "C" fn fcntl64(fd: c_int, cmd: c_int, arg: usize) -> c_int {
    fcntl(fd, cmd, arg)
}

#[no_mangle]
pub unsafe extern "C" fn dup(fd: c_int) -> c_int {
    let r = libc::syscall(libc::SYS_dup, fd) as c_int;
    if ACTIVE.load(Ordering::Relaxed) && !bypassed() {
        record_dup(fd, r);
    }
    r
}

#[no_mangle]
pub unsafe extern "C" fn dup3(old: c_int, new: c_int, flags: c_int) -> c_int {
    let r = libc::syscall(libc::SYS_dup3, old, new, flags) as c_int;
    if ACTIVE.load(Ordering::Relaxed) && !bypassed() && r >= 0 {
        record_dup(old, r);
    }
    r
}

#[no_mangle]
pub unsafe extern "C" fn dup2(old: c_int, new: c_int) -> c_int {
    if old == new {
        return libc::syscall(libc::SYS_fcntl, old, libc::F_GETFD) as c_int;
    }
    dup3(old, new, 0)
}

#[no_mangle]
pub unsafe extern "C" fn close(fd: c_int) -> c_int {
    if tracked(fd) {
        maybe_yield();
        with(|s| {
            s.calls += 1;
            s.total_calls += 1;
            if let Some(st) = s.fds.remove(&fd) {
                // last reference to the open file description: release its flock
                release_if_unreferenced(s, st.fid, st.ofd);
                if s.logging {
                    s.log.push(Ev::Close { fid: st.fid });
                }
            }
        });
    }
    libc::syscall(libc::SYS_close, fd) as c_int
}

unsafe fn cur_offset(fd: c_int) -> i64 {
    libc::syscall(libc::SYS_lseek, fd, 0 as c_long, libc::SEEK_CUR) as i64
}

/// apply a write to the shadow and the log
fn record_write(s: &mut Sim, fd: c_int, off: u64, data: &[u8]) {
    let fid = s.fds[&fd].fid;
    let f = &mut s.files[fid as usize];
    let end = off as usize + data.len();
    if f.cache.len() < end {
        f.cache.resize(end, 0);
    }
    f.cache[off as usize..end].copy_from_slice(data);
    if f.len < end as u64 {
        f.len = end as u64;
    }
    if s.logging {
        s.log.push(Ev::Write { fid, off, data: data.to_vec() });
    }
}

unsafe fn tracked_write(fd: c_int, buf: *const u8, n: size_t, at: Option<u64>) -> ssize_t {
    maybe_yield();
    // a previous short write left an error behind
    let poisoned = with(|s| s.fds.get_mut(&fd).and_then(|st| st.poisoned.take()));
    if let Some(e) = poisoned {
        with(|s| {
            s.calls += 1;
            s.total_calls += 1;
            s.call_kinds.push(Call::Write);
        });
        set_errno(e);
        return -1;
    }
    let d = with(|s| decide(s, Call::Write));
    let mut count = n;
    match d {
        Decision::Fail(e) => {
            set_errno(e);
            return -1;
        }
        Decision::Short { num, den, then } => {
            if n > 1 {
                let c = ((n as u64 * num as u64) / den.max(1) as u64) as usize;
                count = c.clamp(1, n - 1);
            }
            if let Some(e) = then {
                with(|s| {
                    if let Some(st) = s.fds.get_mut(&fd) {
                        st.poisoned = Some(e)
                    }
                });
            }
        }
        Decision::Pass => {}
    }
    let off = match at {
        Some(o) => o as i64,
        None => cur_offset(fd),
    };
    let r = match at {
        Some(o) => libc::syscall(libc::SYS_pwrite64, fd, buf, count, o as i64) as ssize_t,
        None => libc::syscall(libc::SYS_write, fd, buf, count) as ssize_t,
    };
    if r > 0 && off >= 0 {
        let data = std::slice::from_raw_parts(buf, r as usize);
        with(|s| record_write(s, fd, off as u64, data));
    }
    r
}

#[no_mangle]
pub unsafe extern "C" fn write(fd: c_int, buf: *const c_void, n: size_t) -> ssize_t {
    if !tracked(fd) {
        return libc::syscall(libc::SYS_write, fd, buf, n) as ssize_t;
    }
    tracked_write(fd, buf as *const u8, n, None)
}

#[no_mangle]
pub unsafe extern "C" fn pwrite64(fd: c_int, buf: *const c_void, n: size_t, off: off64_t) -> ssize_t {
    if !tracked(fd) {
        return libc::syscall(libc::SYS_pwrite64, fd, buf, n, off) as ssize_t;
    }
    tracked_write(fd, buf as *const u8, n, Some(off as u64))
}

#[no_mangle]
pub unsafe extern "C" fn pwrite(fd: c_int, buf: *const c_void, n: size_t, off: off64_t) -> ssize_t {
    pwrite64(fd, buf, n, off)
}

unsafe fn gather(iov: *const libc::iovec, cnt: c_int) -> Vec<u8> {
    let mut v = Vec::new();
    for i in 0..cnt.max(0) as usize {
        let io = &*iov.add(i);
        v.extend_from_slice(std::slice::from_raw_parts(io.iov_base as *const u8, io.iov_len));
    }
    v
}

#[no_mangle]
pub unsafe extern "C" fn writev(fd: c_int, iov: *const libc::iovec, cnt: c_int) -> ssize_t {
    if !tracked(fd) {
        return libc::syscall(libc::SYS_writev, fd, iov, cnt) as ssize_t;
    }
    let v = gather(iov, cnt);
    tracked_write(fd, v.as_ptr(), v.len(), None)
}

#[no_mangle]
pub unsafe extern "C" fn pwritev(fd: c_int, iov: *const libc::iovec, cnt: c_int, off: off64_t) -> ssize_t {
    if !tracked(fd) {
        return libc::syscall(libc::SYS_pwritev, fd, iov, cnt, off, 0) as ssize_t;
    }
    let v = gather(iov, cnt);
    tracked_write(fd, v.as_ptr(), v.len(), Some(off as u64))
}

#[no_mangle]
pub unsafe extern "C" fn pwritev64(fd: c_int, iov: *const libc::iovec, cnt: c_int, off: off64_t) -> ssize_t {
    pwritev(fd, iov, cnt, off)
}

#[no_mangle]
pub unsafe extern "C" fn lseek64(fd: c_int, off: off64_t, whence: c_int) -> off64_t {
    if tracked(fd) {
        maybe_yield();
        if let Decision::Fail(e) = with(|s| decide(s, Call::Lseek)) {
            set_errno(e);
            return -1;
        }
    }
    libc::syscall(libc::SYS_lseek, fd, off, whence) as off64_t
}

#[no_mangle]
pub unsafe extern "C" fn lseek(fd: c_int, off: off64_t, whence: c_int) -> off64_t {
    lseek64(fd, off, whence)
}

unsafe fn do_sync(fd: c_int, nr: c_long) -> c_int {
    if tracked(fd) {
        maybe_yield();
        if let Decision::Fail(e) = with(|s| decide(s, Call::Fsync)) {
            set_errno(e);
            return -1;
        }
        let r = libc::syscall(nr, fd) as c_int;
        if r == 0 {
            with(|s| {
                let fid = s.fds[&fd].fid;
                if s.logging {
                    s.log.push(Ev::Sync { fid });
                }
            });
        }
        return r;
    }
    libc::syscall(nr, fd) as c_int
}

#[no_mangle]
pub unsafe extern "C" fn fsync(fd: c_int) -> c_int {
    do_sync(fd, libc::SYS_fsync)
}

#[no_mangle]
pub unsafe extern "C" fn fdatasync(fd: c_int) -> c_int {
    do_sync(fd, libc::SYS_fdatasync)
}

#[no_mangle]
pub unsafe extern "C" fn sync_file_range(fd: c_int, off: off64_t, n: off64_t, flags: c_uint) -> c_int {
    // not a durability barrier in our model (it gives no metadata guarantee); pass through
    libc::syscall(libc::SYS_sync_file_range, fd, off, n, flags) as c_int
}

unsafe fn set_len(fd: c_int, len: u64, shrink_ok: bool, call: Call) -> c_int {
    maybe_yield();
    if GROWTH_BLOCK.load(Ordering::SeqCst) && call == Call::Fallocate {
        let cur = with(|s| s.files[s.fds[&fd].fid as usize].len);
        if len > cur {
            GROWTH_BLOCKED.fetch_add(1, Ordering::SeqCst);
            set_errno(libc::ENOSPC);
            return -1;
        }
    }
    if FAIL_FIRST_EXTEND.load(Ordering::SeqCst) != 0 {
        let cur = with(|s| s.files[s.fds[&fd].fid as usize].len);
        if cur == 0 && len > 0 {
            let e = FAIL_FIRST_EXTEND.swap(0, Ordering::SeqCst) as i32;
            if e != 0 {
                FIRST_EXTEND_FAILED.fetch_add(1, Ordering::SeqCst);
                with(|s| {
                    s.calls += 1;
                    s.total_calls += 1;
                });
                set_errno(e);
                return -1;
            }
        }
    }
    if let Decision::Fail(e) = with(|s| decide(s, call)) {
        set_errno(e);
        return -1;
    }
    let cur = with(|s| s.files[s.fds[&fd].fid as usize].len);
    if len <= cur && !shrink_ok {
        return 0;
    }
    let r = libc::syscall(libc::SYS_ftruncate, fd, len as i64) as c_int;
    if r == 0 {
        with(|s| {
            let fid = s.fds[&fd].fid;
            let f = &mut s.files[fid as usize];
            f.len = len;
            if (f.cache.len() as u64) > len {
                f.cache.truncate(len as usize);
            }
            if s.logging {
                s.log.push(Ev::Extend { fid, len });
            }
        });
    }
    r
}

#[no_mangle]
pub unsafe extern "C" fn fallocate64(fd: c_int, mode: c_int, off: off64_t, len: off64_t) -> c_int {
    if !tracked(fd) {
        return libc::syscall(libc::SYS_fallocate, fd, mode, off, len) as c_int;
    }
    // executed as a sparse extension: the 8 MiB growth step costs nothing
    set_len(fd, (off + len) as u64, false, Call::Fallocate)
}

#[no_mangle]
pub unsafe extern "C" fn fallocate(fd: c_int, mode: c_int, off: off64_t, len: off64_t) -> c_int {
    fallocate64(fd, mode, off, len)
}

#[no_mangle]
pub unsafe extern "C" fn posix_fallocate64(fd: c_int, off: off64_t, len: off64_t) -> c_int {
    if !tracked(fd) {
        let r = libc::syscall(libc::SYS_fallocate, fd, 0, off, len) as c_int;
        return if r == 0 { 0 } else { *libc::__errno_location() };
    }
    // posix_fallocate returns the error number instead of setting errno
    let r = set_len(fd, (off + len) as u64, false, Call::Fallocate);
    if r == 0 {
        0
    } else {
        *libc::__errno_location()
    }
}

#[no_mangle]
pub unsafe extern "C" fn posix_fallocate(fd: c_int, off: off64_t, len: off64_t) -> c_int {
    posix_fallocate64(fd, off, len)
}

#[no_mangle]
pub unsafe extern "C" fn ftruncate64(fd: c_int, len: off64_t) -> c_int {
    if !tracked(fd) {
        return libc::syscall(libc::SYS_ftruncate, fd, len) as c_int;
    }
    set_len(fd, len as u64, true, Call::Ftruncate)
}

#[no_mangle]
pub unsafe extern "C" fn ftruncate(fd: c_int, len: off64_t) -> c_int {
    ftruncate64(fd, len)
}

#[no_mangle]
pub unsafe extern "C" fn mmap64(
    addr: *mut c_void,
    len: size_t,
    prot: c_int,
    flags: c_int,
    fd: c_int,
    off: off64_t,
) -> *mut c_void {
    if fd >= 0 && tracked(fd) {
        maybe_yield();
        if let Decision::Fail(e) = with(|s| decide(s, Call::Mmap)) {
            set_errno(e);
            return libc::MAP_FAILED;
        }
        with(|s| {
            let fid = s.fds[&fd].fid;
            if prot & libc::PROT_WRITE != 0 && flags & libc::MAP_SHARED != 0 {
                s.writable_maps += 1;
            }
            if s.logging {
                s.log.push(Ev::Map { fid, len: len as u64 });
            }
        });
    }
    let p = libc::syscall(libc::SYS_mmap, addr, len, prot, flags, fd, off) as *mut c_void;
    if fd >= 0 && p != libc::MAP_FAILED && tracked(fd) {
        with(|s| {
            let st = &s.fds[&fd];
            let (fid, ofd) = (st.fid, st.ofd);
            s.maps.insert(p as usize, (fid, ofd));
        });
    }
    p
}

#[no_mangle]
pub unsafe extern "C" fn munmap(addr: *mut c_void, len: size_t) -> c_int {
    let known = ACTIVE.load(Ordering::Relaxed) && !bypassed() && with(|s| s.maps.contains_key(&(addr as usize)));
    if known {
        maybe_yield();
        with(|s| {
            s.total_calls += 1;
            if let Some((fid, ofd)) = s.maps.remove(&(addr as usize)) {
                release_if_unreferenced(s, fid, ofd);
            }
        });
    }
    libc::syscall(libc::SYS_munmap, addr, len) as c_int
}

/// The flock of an open file description goes away with its last reference: no descriptor
/// and no mapping left.
fn release_if_unreferenced(s: &mut Sim, fid: u32, ofd: u32) {
    let by_fd = s.fds.values().any(|st| st.ofd == ofd);
    let by_map = s.maps.values().any(|(_, o)| *o == ofd);
    if !by_fd && !by_map {
        s.files[fid as usize].locks.retain(|(o, _)| *o != ofd);
    }
}

/// flock(2) per open file description, implemented in-process.  The kernel's flock is never
/// called for tracked descriptors.
#[no_mangle]
pub unsafe extern "C" fn flock(fd: c_int, op: c_int) -> c_int {
    if !tracked(fd) {
        return libc::syscall(libc::SYS_flock, fd, op) as c_int;
    }
    maybe_yield();
    if let Decision::Fail(e) = with(|s| decide(s, Call::Flock)) {
        set_errno(e);
        return -1;
    }
    let nb = op & libc::LOCK_NB != 0;
    let kind = op & !libc::LOCK_NB;
    let mut spins = 0u64;
    loop {
        let done = with(|s| {
            let st = &s.fds[&fd];
            let (fid, ofd) = (st.fid, st.ofd);
            let locks = &mut s.files[fid as usize].locks;
            match kind {
                libc::LOCK_UN => {
                    locks.retain(|(o, _)| *o != ofd);
                    Some(0)
                }
                libc::LOCK_EX => {
                    if locks.iter().any(|(o, _)| *o != ofd) {
                        None
                    } else {
                        locks.retain(|(o, _)| *o != ofd);
                        locks.push((ofd, true));
                        Some(0)
                    }
                }
                libc::LOCK_SH => {
                    if locks.iter().any(|(o, x)| *o != ofd && *x) {
                        None
                    } else {
                        locks.retain(|(o, _)| *o != ofd);
                        locks.push((ofd, false));
                        Some(0)
                    }
                }
                _ => Some(-libc::EINVAL),
            }
        });
        match done {
            Some(0) => {
                with(|s| {
                    let fid = s.fds[&fd].fid;
                    if s.logging {
                        s.log.push(Ev::Lock { fid, op: kind });
                    }
                });
                return 0;
            }
            Some(e) => {
                set_errno(-e);
                return -1;
            }
            None => {
                if nb {
                    set_errno(libc::EWOULDBLOCK);
                    return -1;
                }
                // blocking: only meaningful under a scheduler that can run the holder
                if YIELD_HOOK.load(Ordering::Relaxed) == 0 {
                    // single-threaded simulation: nobody can ever release it
                    set_errno(libc::EDEADLK);
                    return -1;
                }
                spins += 1;
                let ea = FLOCK_EINTR_AFTER.load(Ordering::SeqCst);
                if ea > 0 && spins == ea {
                    // a signal interrupts the wait: flock(2) fails with EINTR, nothing is held
                    FLOCK_EINTRS.fetch_add(1, Ordering::SeqCst);
                    set_errno(libc::EINTR);
                    return -1;
                }
                if spins > 1_000_000 {
                    set_errno(libc::EDEADLK);
                    return -1;
                }
                spin_wait();
            }
        }
    }
}

/// Seeded randomness for std's `RandomState` (HashMap iteration order inside jammdb decides
/// the order sibling buckets are spilled in, hence page numbers).
#[no_mangle]
pub unsafe extern "C" fn getrandom(buf: *mut c_void, len: size_t, flags: c_uint) -> ssize_t {
    if !ACTIVE.load(Ordering::Relaxed) {
        return libc::syscall(libc::SYS_getrandom, buf, len, flags) as ssize_t;
    }
    let out = std::slice::from_raw_parts_mut(buf as *mut u8, len);
    GETRANDOM_CALLS.fetch_add(1, Ordering::SeqCst);
    for chunk in out.chunks_mut(8) {
        let st = RNG.fetch_add(0x9E37_79B9_7F4A_7C15, Ordering::SeqCst).wrapping_add(0x9E37_79B9_7F4A_7C15);
        let mut z = st;
        z = (z ^ (z >> 30)).wrapping_mul(0xBF58_476D_1CE4_E5B9);
        z = (z ^ (z >> 27)).wrapping_mul(0x94D0_49BB_1331_11EB);
        z ^= z >> 31;
        let b = z.to_le_bytes();
        chunk.copy_from_slice(&b[..chunk.len()]);
    }
    len as ssize_t
}

/// `Path::exists` / `metadata` go through statx: a scheduling point for tracked paths (C13's
/// "exists -> create -> lock" window), otherwise untouched.
#[no_mangle]
pub unsafe extern "C" fn statx(dirfd: c_int, path: *const libc::c_char, flags: c_int, mask: c_uint, buf: *mut c_void) -> c_int {
    if ACTIVE.load(Ordering::Relaxed) && !bypassed() && !path.is_null() && YIELD_HOOK.load(Ordering::Relaxed) != 0 {
        let pb = cstr_bytes(path);
        let is_tracked = with(|s| !s.prefix.is_empty() && pb.starts_with(&s.prefix));
        if is_tracked {
            maybe_yield();
        }
    }
    libc::syscall(libc::SYS_statx, dirfd, path, flags, mask, buf) as c_int
}
