//! CORRUPT engine (C12): media damage at rest, enumerated. After n commits (all states
//! different) and a clean close, every byte of either header page is mutated in several ways
//! (plus zeroing and multi-byte overwrites); reopening must succeed and show, in full, the
//! state recorded by the header that is still intact.
use crate::case::{Case, Verdict};
use crate::crash::Explorer;
use crate::fsck;
use crate::model::MBucket;
use crate::props;
use crate::rng::{mix, Rng};
use crate::seq::{Engine, Source, Violation};
use crate::simos;
use bumpalo::Bump;
use serde_json::{json, Value};

#[derive(Clone, Debug)]
pub struct Damage {
    pub slot: u64,
    pub off: usize,
    pub bytes: Vec<u8>,
    pub what: String,
}

impl Damage {
    fn to_json(&self) -> Value {
        json!({"slot": self.slot, "off": self.off, "bytes": crate::model::hex_full(&self.bytes), "what": self.what})
    }
    fn from_json(v: &Value) -> Option<Damage> {
        Some(Damage {
            slot: v.get("slot")?.as_u64()?,
            off: v.get("off")?.as_u64()? as usize,
            bytes: crate::model::unhex(v.get("bytes")?.as_str()?)?,
            what: v.get("what")?.as_str()?.to_string(),
        })
    }
}

pub fn execute(case: &Case) -> Verdict {
    let case = case.clone();
    let dir = props::fresh_dir("corrupt");
    let dir2 = dir.clone();
    match props::on_fresh_thread(case.seed, dir, move || run(&case, &dir2)) {
        Ok(v) => v,
        Err(e) => Verdict { harness_error: Some(e), ..Default::default() },
    }
}

fn run(case: &Case, dir: &str) -> Verdict {
    let path = format!("{}/db", dir);
    let arena = Bump::new();
    let n_commits = case.extra.get("commits").and_then(|x| x.as_u64()).unwrap_or(2) as u32;
    let legacy = case.extra.get("legacy").and_then(|x| x.as_bool()).unwrap_or(false);
    // "upgrade": the file is in the legacy format *before* its last commit, which the current
    // code then makes: one header is new-format, the other still legacy
    let upgrade = legacy && n_commits >= 1 && case.extra.get("upgrade").and_then(|x| x.as_bool()).unwrap_or(false);
    let first_part = if upgrade { n_commits - 1 } else { n_commits };
    let (steps1, steps2): (Option<Vec<crate::step::Step>>, Option<Vec<crate::step::Step>>) = match &case.steps {
        Some(all) if upgrade => {
            // explicit history (a replay): the first part ends with its last commit
            let mut seen = 0u32;
            let mut cut = 0usize;
            for (i, st) in all.iter().enumerate() {
                if seen == first_part {
                    cut = i;
                    break;
                }
                if matches!(st, crate::step::Step::Commit) {
                    seen += 1;
                    cut = i + 1;
                }
            }
            (Some(all[..cut].to_vec()), Some(all[cut..].to_vec()))
        }
        Some(all) => (Some(all.clone()), None),
        None => (None, None),
    };
    let src = match &steps1 {
        Some(s) => Source::List(s.iter().cloned().collect()),
        None => {
            let mut g = props::gen_for(&case.property, case);
            g.cfg.marker = true;
            g.cfg.txs = first_part + 3;
            g.cfg.p_drop = 0;
            g.cfg.p_ro = 0;
            g.cfg.p_reopen = g.cfg.p_reopen.min(20);
            g.cfg.tx_len.1 = g.cfg.tx_len.1.min(10);
            g.cfg.bulk_len = (5, 30);
            Source::Gen(Box::new(g))
        }
    };
    let mut ecfg = props::engine_cfg(case, &path);
    ecfg.keep_models = true;
    ecfg.verify_commit = false;
    // other properties' oracles are not consulted: they would only end runs early
    ecfg.fsck_commit = false;
    ecfg.oracles = vec![];
    ecfg.stop_after_commit = Some(first_part);
    let ecfg_part2 = ecfg.clone();
    let out = if first_part == 0 {
        // a freshly created database: open and close
        let mut e2 = ecfg.clone();
        e2.stop_after_commit = None;
        Engine::new(e2, Source::List(Default::default()), &arena).run()
    } else {
        Engine::new(ecfg, src, &arena).run()
    };
    let mut v = Verdict { aborted: out.aborted.clone(), trace: out.trace, issued: out.issued.clone(), stats: out.stats.clone(), ..Default::default() };
    if out.aborted.is_some() {
        return v;
    }
    if out.commits.len() as u32 != first_part {
        v.skipped = Some(format!("history produced {} commits, wanted {}", out.commits.len(), first_part));
        return v;
    }
    let mut out = out;
    if upgrade {
        // the closed file becomes a legacy-format file (both headers re-stamped with SHA3-256) ...
        let ps = case.pagesize;
        let (img0, _) = match simos::file_view_prefix(&path, 2 * ps as usize) {
            Some(x) => x,
            None => {
                v.harness_error = Some("no file view".into());
                return v;
            }
        };
        for slot in 0..2u64 {
            if let Some(h) = fsck::valid_header(&img0, slot, ps, false) {
                let base = (slot * ps) as usize;
                let mut page = img0[base..base + ps as usize].to_vec();
                for b in page[fsck::REC_OFF..fsck::REC_OFF + fsck::REC_LEN_OLD].iter_mut() {
                    *b = 0;
                }
                fsck::write_header(&mut page, &h, true);
                simos::damage(&path, base as u64, &page[..fsck::REC_OFF + fsck::REC_LEN_OLD]);
            }
        }
        // ... and the current code makes one more commit on it
        let mut e2 = ecfg_part2;
        e2.stop_after_commit = Some(1);
        let src2 = match steps2 {
            Some(st) => Source::List(st.into_iter().collect()),
            None => {
                let mut c2 = case.clone();
                c2.seed = mix(case.seed, 0x1E6A);
                let mut g = props::gen_for(&case.property, &c2);
                g.cfg.marker = true;
                g.cfg.txs = 4;
                g.cfg.p_drop = 0;
                g.cfg.p_ro = 0;
                g.cfg.p_reopen = 0;
                g.cfg.tx_len.1 = g.cfg.tx_len.1.min(10);
                g.cfg.bulk_len = (5, 30);
                Source::Gen(Box::new(g))
            }
        };
        let out2 = Engine::new(e2, src2, &arena).with_initial(out.final_model.clone()).run();
        v.issued.extend(out2.issued.iter().cloned());
        if out2.aborted.is_some() {
            v.aborted = out2.aborted.clone();
            return v;
        }
        if out2.commits.len() != 1 {
            v.skipped = Some("the commit after the upgrade did not happen".into());
            return v;
        }
        out = out2;
    }
    // one history in four ends with a write transaction that changes nothing and commits: it is a
    // commit like any other, so the state "before the newest commit" is then the same state
    let empty_last = !upgrade && n_commits >= 1 && case.extra.get("empty_last").and_then(|x| x.as_bool()).unwrap_or(false);
    let mut empty_commit_models: Option<(std::sync::Arc<MBucket>, std::sync::Arc<MBucket>)> = None;
    if empty_last {
        let mut e3 = props::engine_cfg(case, &path);
        e3.keep_models = true;
        e3.verify_commit = false;
        e3.fsck_commit = false;
        e3.oracles = vec![];
        e3.stop_after_commit = Some(1);
        let steps = vec![crate::step::Step::Begin { rw: true }, crate::step::Step::Commit];
        let out3 = Engine::new(e3, Source::List(steps.into_iter().collect()), &arena).with_initial(out.final_model.clone()).run();
        v.issued.extend(out3.issued.iter().cloned());
        if out3.aborted.is_some() || out3.commits.len() != 1 {
            v.aborted = out3.aborted.clone();
            v.skipped = Some("the empty commit did not happen".into());
            return v;
        }
        let c = out3.commits.last().unwrap();
        empty_commit_models = Some((c.pre.clone(), c.post.clone()));
    }
    let (mut img, len) = match simos::file_view(&path) {
        Some(x) => x,
        None => {
            v.harness_error = Some("no file view".into());
            return v;
        }
    };
    simos::set_logging(false);
    let ps = case.pagesize;
    if (img.len() as u64) < 2 * ps {
        v.harness_error = Some("image shorter than two pages".into());
        return v;
    }
    // Which slot is the newest is known from the raw transaction ids (slot 1 on a tie, as
    // on a fresh file); which bytes matter is known from the layout. Neither depends on
    // recomputing the checksum, so a change to the checksum itself cannot blind this check.
    let (h0, h1) = match (fsck::raw_header(&img, 0, ps), fsck::raw_header(&img, 1, ps)) {
        (Some(a), Some(b)) => (a, b),
        _ => {
            v.harness_error = Some("file shorter than two header pages".into());
            return v;
        }
    };
    let newest = if h0.tx_id > h1.tx_id { h0 } else { h1 };
    let empty = MBucket::default();
    let mut state_new: &MBucket = out.commits.last().map(|c| &*c.post).unwrap_or(&empty);
    let mut state_old: &MBucket = out.commits.last().map(|c| &*c.pre).unwrap_or(&empty);
    if let Some((pre, post)) = &empty_commit_models {
        state_new = post;
        state_old = pre;
    }
    if legacy && !upgrade {
        // rewrite both headers in the 0.10 format (same fields, SHA3-256)
        for slot in 0..2u64 {
            if let Some(h) = fsck::valid_header(&img, slot, ps, false) {
                let base = (slot * ps) as usize;
                for b in img[base + fsck::REC_OFF..base + fsck::REC_OFF + fsck::REC_LEN_OLD].iter_mut() {
                    *b = 0;
                }
                fsck::write_header(&mut img[base..base + ps as usize], &h, true);
            }
        }
    }
    // the undamaged header pages (which format each slot is in)
    let img_orig_headers: Vec<u8> = img[..(2 * ps) as usize].to_vec();
    let mut ex = Explorer::new(ps, dir);
    ex.skip_fsck = true;
    if upgrade {
        ex.counters.insert("legacy_file_then_commit_by_current_code".into(), 1);
    }
    if empty_last {
        ex.counters.insert("history_ends_with_an_empty_commit".into(), 1);
    }
    // sanity: the undamaged image shows the newest state
    if let Err(iv) = ex.judge(&img, len, &[state_new], false) {
        // the undamaged file already reads back wrong: C01's business, nothing to claim here
        v.aborted = Some(Violation { oracle: "contents".into(), site: "undamaged image".into(), detail: iv.detail, step: 0, in_rw_tx: false });
        return v;
    }
    let mut r = Rng::new(mix(case.seed, 0xC0DE));
    let single = case.extra.get("damage").and_then(Damage::from_json);
    let mut damages: Vec<Damage> = Vec::new();
    if let Some(d) = single {
        damages.push(d);
    } else {
        for slot in 0..2u64 {
            let base = (slot * ps) as usize;
            for off in 0..ps as usize {
                let cur = img[base + off];
                let seeded = r.below(256) as u8;
                for (name, nb) in [("xor01", cur ^ 0x01), ("xor80", cur ^ 0x80), ("xorff", cur ^ 0xff), ("zero", 0u8), ("seeded", seeded)] {
                    if nb != cur {
                        damages.push(Damage { slot, off, bytes: vec![nb], what: name.into() });
                    }
                }
            }
            damages.push(Damage { slot, off: 0, bytes: vec![0; ps as usize], what: "page-zero".into() });
            damages.push(Damage { slot, off: fsck::REC_OFF, bytes: vec![0; fsck::REC_LEN_OLD], what: "record-zero".into() });
            damages.push(Damage { slot, off: 0, bytes: vec![0xff; ps as usize], what: "page-ones".into() });
            for _ in 0..24 {
                let off = r.below(140) as usize;
                let n = r.range(2, 48) as usize;
                let bytes: Vec<u8> = (0..n).map(|_| r.below(256) as u8).collect();
                damages.push(Damage { slot, off, bytes, what: "multi-byte".into() });
            }
            // the other header's record copied over this one (a misdirected but well-formed write)
            let other = ((1 - slot) * ps) as usize;
            damages.push(Damage { slot, off: fsck::REC_OFF, bytes: img[other + fsck::REC_OFF..other + fsck::REC_OFF + fsck::REC_LEN_OLD].to_vec(), what: "other-record".into() });
        }
    }
    for d in damages {
        let base = (d.slot * ps) as usize;
        let end = (d.off + d.bytes.len()).min(ps as usize);
        let saved: Vec<u8> = img[base + d.off..base + end].to_vec();
        img[base + d.off..base + end].copy_from_slice(&d.bytes[..end - d.off]);
        // Does the damage touch bytes that make a header what it is? The page-type byte, the
        // checksummed fields (record bytes 0..12 and 16..64) and the checksum itself.
        let slot_legacy = legacy && fsck::valid_header(&img_orig_headers, d.slot, ps, false).is_none();
        let rec_end = fsck::REC_OFF + if slot_legacy { fsck::REC_LEN_OLD } else { fsck::REC_LEN_NEW };
        let matters = |o: usize| o == 8 || (fsck::REC_OFF..fsck::REC_OFF + 12).contains(&o) || (fsck::REC_OFF + 16..rec_end).contains(&o);
        let changed_meaningful = (d.off..end).any(|o| matters(o) && img[base + o] != saved[o - d.off]);
        let still_valid = if d.what == "other-record" || !changed_meaningful { Some(()) } else { None };
        let mut accept: Vec<&MBucket> = Vec::new();
        let class;
        match &still_valid {
            Some(h) => {
                // checksum still matches: the fields are what they were (or the whole record is
                // another valid record); the format has no way to notice, so the header counts
                let orig_new = d.slot == newest.slot;
                if d.what == "other-record" {
                    // both slots now carry the same record: either is a correct answer
                    accept.push(if orig_new { state_old } else { state_new });
                    class = "copied-record";
                } else {
                    let _ = h;
                    accept.push(state_new);
                    // bytes the checksum does not cover and the format does not use
                    if d.off < 8 || (16..32).contains(&d.off) || (44..48).contains(&d.off) {
                        accept.push(state_old);
                    }
                    class = "undetectable";
                }
            }
            None => {
                if d.slot == newest.slot {
                    accept.push(state_old);
                    class = "newest-damaged";
                } else {
                    accept.push(state_new);
                    class = "older-damaged";
                }
            }
        }
        *ex.counters.entry(format!("{}:{}", class, if d.bytes.len() == 1 { "byte" } else { "multi" })).or_default() += 1;
        let res = ex.judge(&img, len, &accept, false);
        img[base + d.off..base + end].copy_from_slice(&saved);
        if let Err(iv) = res {
            let region = if d.off == 8 {
                "page-type byte"
            } else if d.off < 32 {
                "page header"
            } else if d.off < fsck::REC_OFF + 64 {
                "header field"
            } else if d.off < fsck::REC_OFF + if slot_legacy { 96 } else { 72 } {
                "checksum"
            } else {
                "rest of page"
            };
            v.violation = Some(Violation {
                oracle: iv.oracle.replace("crash-", "corrupt-"),
                site: format!("{} {}", class, region),
                detail: format!(
                    "after {} commit(s), header slot {} ({}) damaged at offset {} ({} byte(s), {}): {}",
                    n_commits,
                    d.slot,
                    if d.slot == newest.slot { "newest" } else { "older" },
                    d.off,
                    d.bytes.len(),
                    d.what,
                    iv.detail
                ),
                step: 0,
                in_rw_tx: false,
            });
            v.extra_out = json!({"damage": d.to_json(), "commits": n_commits, "legacy": legacy, "upgrade": upgrade});
            break;
        }
    }
    if v.violation.is_none() {
        v.extra_out = json!({"commits": n_commits, "legacy": legacy, "upgrade": upgrade, "newest_slot": newest.slot, "images_in_this_run": ex.images,
            "sample_damage": {"slot": newest.slot, "off": fsck::REC_OFF + 56, "what": "xor01 (a byte of the transaction id)"}});
    }
    v.counters = ex.counters.clone();
    v.counters.insert("images".into(), ex.images);
    v.sim_events = simos::total_calls();
    if let Some(h) = crate::seq::HARNESS_FAULT.with(|p| p.borrow_mut().take()) {
        v.harness_error = Some(format!("the harness itself panicked: {}", h));
    }
    v
}
