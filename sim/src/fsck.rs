//! Independent checker of raw file bytes. Never calls jammdb. Hard-codes the pinned layout:
//!
//! page header  : id u64 @0, type u8 @8, count u64 @16, overflow u64 @24, payload from @32
//! header record: @32 {meta_page u32, magic u32, version u32, pad u32, pagesize u64,
//!                root_page u64, next_int u64, num_pages u64, freelist_page u64, tx_id u64,
//!                hash u64 (FNV-1a-64 over the big-endian field bytes) | legacy: 32 B SHA3-256}
//! branch elem  : 24 B {page u64, key_size u64, pos u64}      pos relative to the element
//! leaf elem    : 32 B {type u8 (+7 pad), pos u64, key_size u64, value_size u64}
//! bucket value : 16 B {root_page u64, next_int u64}
//! free list    : `count` page ids from @32
use crate::model::{Entry, MBucket, Path};
use sha3::{Digest, Sha3_256};

pub const T_BRANCH: u8 = 1;
pub const T_LEAF: u8 = 2;
pub const T_META: u8 = 3;
pub const T_FREELIST: u8 = 4;
pub const MAGIC: u32 = 0x00AB_CDEF;
pub const VERSION: u32 = 1;
pub const REC_OFF: usize = 32;
pub const REC_LEN_NEW: usize = 72;
pub const REC_LEN_OLD: usize = 96;

#[derive(Clone, Debug, PartialEq, Eq)]
pub struct Header {
    pub slot: u64,
    pub page_id: u64,
    pub page_type: u8,
    pub meta_page: u32,
    pub magic: u32,
    pub version: u32,
    pub pagesize: u64,
    pub root_page: u64,
    pub root_next_int: u64,
    pub num_pages: u64,
    pub freelist_page: u64,
    pub tx_id: u64,
    pub legacy: bool,
}

fn u64at(b: &[u8], o: usize) -> u64 {
    u64::from_le_bytes(b[o..o + 8].try_into().unwrap())
}
fn u32at(b: &[u8], o: usize) -> u32 {
    u32::from_le_bytes(b[o..o + 4].try_into().unwrap())
}

pub fn fnv1a(parts: &[&[u8]]) -> u64 {
    let mut h: u64 = 0xcbf2_9ce4_8422_2325;
    for p in parts {
        for x in *p {
            h ^= *x as u64;
            h = h.wrapping_mul(0x0000_0100_0000_01B3);
        }
    }
    h
}

fn field_bytes(h: &Header) -> Vec<u8> {
    let mut v = Vec::with_capacity(60);
    v.extend_from_slice(&h.meta_page.to_be_bytes());
    v.extend_from_slice(&h.magic.to_be_bytes());
    v.extend_from_slice(&h.version.to_be_bytes());
    v.extend_from_slice(&h.pagesize.to_be_bytes());
    v.extend_from_slice(&h.root_page.to_be_bytes());
    v.extend_from_slice(&h.root_next_int.to_be_bytes());
    v.extend_from_slice(&h.num_pages.to_be_bytes());
    v.extend_from_slice(&h.freelist_page.to_be_bytes());
    v.extend_from_slice(&h.tx_id.to_be_bytes());
    v
}

pub fn hash_new(h: &Header) -> u64 {
    fnv1a(&[&field_bytes(h)])
}

pub fn hash_old(h: &Header) -> [u8; 32] {
    let mut hasher = Sha3_256::new();
    hasher.update(field_bytes(h));
    let r = hasher.finalize();
    let mut out = [0u8; 32];
    out.copy_from_slice(&r[..]);
    out
}

/// Raw fields of header slot 0/1, without judging validity. None if the file is too short.
pub fn raw_header(buf: &[u8], slot: u64, pagesize: u64) -> Option<Header> {
    let base = (slot * pagesize) as usize;
    if buf.len() < base + REC_OFF + REC_LEN_OLD {
        return None;
    }
    let p = &buf[base..];
    Some(Header {
        slot,
        page_id: u64at(p, 0),
        page_type: p[8],
        meta_page: u32at(p, REC_OFF),
        magic: u32at(p, REC_OFF + 4),
        version: u32at(p, REC_OFF + 8),
        pagesize: u64at(p, REC_OFF + 16),
        root_page: u64at(p, REC_OFF + 24),
        root_next_int: u64at(p, REC_OFF + 32),
        num_pages: u64at(p, REC_OFF + 40),
        freelist_page: u64at(p, REC_OFF + 48),
        tx_id: u64at(p, REC_OFF + 56),
        legacy: false,
    })
}

/// A header is valid iff its page type says header and its checksum matches (new format
/// first, then legacy). This is the format's own rule; magic and version are covered by the
/// checksum and additionally required to be the known constants.
pub fn valid_header(buf: &[u8], slot: u64, pagesize: u64, legacy: bool) -> Option<Header> {
    let mut h = raw_header(buf, slot, pagesize)?;
    if h.page_type != T_META {
        return None;
    }
    let base = (slot * pagesize) as usize + REC_OFF + 64;
    if !legacy {
        if u64at(buf, base) == hash_new(&h) {
            return Some(h);
        }
        None
    } else {
        if buf[base..base + 32] == hash_old(&h) {
            h.legacy = true;
            return Some(h);
        }
        None
    }
}

/// The header the format says is current: among the new-format-valid ones the higher
/// transaction id (slot 1 on a tie); if none, the same among legacy-valid ones.
pub fn choose_header(buf: &[u8], pagesize: u64) -> Option<Header> {
    for legacy in [false, true] {
        let a = valid_header(buf, 0, pagesize, legacy);
        let b = valid_header(buf, 1, pagesize, legacy);
        match (a, b) {
            (Some(a), Some(b)) => return Some(if a.tx_id > b.tx_id { a } else { b }),
            (Some(a), None) => return Some(a),
            (None, Some(b)) => return Some(b),
            (None, None) => {}
        }
    }
    None
}

/// Serialise a header record into a page buffer (used to synthesise legacy files and tears).
pub fn write_header(page: &mut [u8], h: &Header, legacy: bool) {
    page[0..8].copy_from_slice(&h.page_id.to_le_bytes());
    page[8] = T_META;
    let r = REC_OFF;
    page[r..r + 4].copy_from_slice(&h.meta_page.to_le_bytes());
    page[r + 4..r + 8].copy_from_slice(&h.magic.to_le_bytes());
    page[r + 8..r + 12].copy_from_slice(&h.version.to_le_bytes());
    page[r + 12..r + 16].copy_from_slice(&[0; 4]);
    page[r + 16..r + 24].copy_from_slice(&h.pagesize.to_le_bytes());
    page[r + 24..r + 32].copy_from_slice(&h.root_page.to_le_bytes());
    page[r + 32..r + 40].copy_from_slice(&h.root_next_int.to_le_bytes());
    page[r + 40..r + 48].copy_from_slice(&h.num_pages.to_le_bytes());
    page[r + 48..r + 56].copy_from_slice(&h.freelist_page.to_le_bytes());
    page[r + 56..r + 64].copy_from_slice(&h.tx_id.to_le_bytes());
    if legacy {
        page[r + 64..r + 96].copy_from_slice(&hash_old(h));
    } else {
        page[r + 64..r + 72].copy_from_slice(&hash_new(h).to_le_bytes());
    }
}

#[derive(Clone, Debug, Default)]
pub struct BucketShape {
    pub path: Path,
    pub depth: u32,
    /// keys per leaf page, left to right
    pub leaves: Vec<Vec<Vec<u8>>>,
    pub branches: u32,
    /// per leaf with at least two elements: (file offset of the first byte of its first key,
    /// that byte, the first byte of the second key)
    pub first_key_at: Vec<(u64, u8, u8)>,
}

#[derive(Clone, Debug, Default)]
pub struct Shape {
    pub buckets: Vec<BucketShape>,
    pub n_branch: u64,
    pub n_leaf: u64,
    pub n_overflow_pages: u64,
    pub max_depth: u32,
    pub free: u64,
    pub freelist_run: u64,
    pub hwm: u64,
    pub live_pages: u64,
    /// pages owned by a header, the tree (with overflow runs) or the free-list page run
    pub reachable_pages: u64,
    pub file_len: u64,
}

impl Shape {
    pub fn signature(&self) -> u64 {
        let mut h = crate::rng::Fnv::default();
        h.u64(self.max_depth as u64);
        h.u64(self.n_branch);
        h.u64(self.n_leaf);
        h.u64(self.n_overflow_pages.min(8));
        h.u64(self.free.min(32));
        h.u64(self.buckets.len() as u64);
        h.0
    }
}

#[derive(Clone, Debug)]
pub struct Report {
    pub header: Header,
    pub errors: Vec<String>,
    pub contents: MBucket,
    pub shape: Shape,
    pub freelist: Vec<u64>,
}

struct Walk<'a> {
    buf: &'a [u8],
    ps: u64,
    num_pages: u64,
    /// 0 = unowned; otherwise a tag describing the owner
    owner: Vec<u8>,
    errors: Vec<String>,
    shape: Shape,
}

const O_META: u8 = 1;
const O_TREE: u8 = 2;
const O_FLPAGE: u8 = 3;
const O_FREE: u8 = 4;

impl<'a> Walk<'a> {
    fn err(&mut self, s: String) {
        if self.errors.len() < 16 {
            self.errors.push(s);
        }
    }

    fn claim(&mut self, id: u64, n: u64, tag: u8, what: &str) -> bool {
        if n > self.num_pages || id.saturating_add(n) > self.num_pages {
            self.err(format!("{}: page run {}+{} reaches past the high-water mark {}", what, id, n.saturating_sub(1), self.num_pages));
            return false;
        }
        let mut ok = true;
        for p in id..id.saturating_add(n) {
            if p < 2 && tag != O_META {
                self.err(format!("{}: page {} is a header page", what, p));
                ok = false;
            } else if p >= self.num_pages {
                self.err(format!("{}: page {} is at or above the high-water mark {}", what, p, self.num_pages));
                ok = false;
            } else if self.owner[p as usize] != 0 {
                let prev = self.owner[p as usize];
                self.err(format!(
                    "page {} accounted twice: {} and {}",
                    p,
                    owner_name(prev),
                    what
                ));
                ok = false;
            } else {
                self.owner[p as usize] = tag;
            }
        }
        ok
    }

    /// page header of page `id`: (type, count, overflow) or None if outside the file
    fn page(&mut self, id: u64, what: &str) -> Option<(u8, u64, u64)> {
        let base = id.checked_mul(self.ps)? as usize;
        if id >= self.num_pages || base + 32 > self.buf.len() {
            self.err(format!("{}: page {} lies outside the file / high-water mark", what, id));
            return None;
        }
        let b = &self.buf[base..];
        let pid = u64at(b, 0);
        if pid != id {
            self.err(format!("{}: page {} carries id {}", what, id, pid));
        }
        Some((b[8], u64at(b, 16), u64at(b, 24)))
    }

    /// Walk one bucket's tree; returns its logical contents.
    fn bucket(&mut self, root: u64, next_int: u64, path: &Path, depth_limit: u32) -> MBucket {
        let mut out = MBucket { next_int, entries: Default::default() };
        let mut bs = BucketShape { path: path.clone(), ..Default::default() };
        let mut last_key: Option<Vec<u8>> = None;
        let mut subs: Vec<(Vec<u8>, u64, u64)> = Vec::new();
        self.subtree(root, 1, None, &mut out, &mut bs, &mut last_key, &mut subs, path);
        if bs.depth > self.shape.max_depth {
            self.shape.max_depth = bs.depth;
        }
        self.shape.buckets.push(bs);
        for (name, sroot, sint) in subs {
            let mut p = path.clone();
            p.push(name.clone());
            if depth_limit == 0 {
                self.err("bucket nesting deeper than 64".into());
                continue;
            }
            if sroot < 2 || sroot >= self.num_pages {
                self.err(format!("bucket {} has root page {} out of range", pstr(&p), sroot));
                continue;
            }
            let sub = self.bucket(sroot, sint, &p, depth_limit - 1);
            out.entries.insert(name, Entry::Sub(sub));
        }
        out
    }

    #[allow(clippy::too_many_arguments)]
    fn subtree(
        &mut self,
        id: u64,
        depth: u32,
        // separator that led here: every key below must be >= it
        sep: Option<&[u8]>,
        out: &mut MBucket,
        bs: &mut BucketShape,
        last_key: &mut Option<Vec<u8>>,
        subs: &mut Vec<(Vec<u8>, u64, u64)>,
        path: &Path,
    ) {
        let what = format!("bucket {}", pstr(path));
        if depth > 64 {
            self.err(format!("{}: tree deeper than 64 (cycle?)", what));
            return;
        }
        let (t, count, overflow) = match self.page(id, &what) {
            Some(x) => x,
            None => return,
        };
        if !self.claim(id, overflow.saturating_add(1), O_TREE, &format!("tree page of {}", what)) {
            // already owned: do not descend again (avoids cycles), contents would duplicate
            return;
        }
        if depth > bs.depth {
            bs.depth = depth;
        }
        let base = (id * self.ps) as usize;
        let run_len = ((overflow + 1) * self.ps) as usize;
        if base + run_len > self.buf.len() {
            self.err(format!("{}: page run {}+{} extends past the end of the file", what, id, overflow));
            return;
        }
        let run = &self.buf[base..base + run_len];
        self.shape.n_overflow_pages += overflow;
        match t {
            T_BRANCH => {
                self.shape.n_branch += 1;
                bs.branches += 1;
                let hdr_end = 32usize.saturating_add((count as usize).saturating_mul(24));
                if count > (run_len as u64) || hdr_end > run_len {
                    self.err(format!("{}: branch page {} element table ({}) exceeds its run", what, id, count));
                    return;
                }
                let mut prev: Option<Vec<u8>> = None;
                let mut children: Vec<(Vec<u8>, u64)> = Vec::new();
                for i in 0..count as usize {
                    let e = 32 + i * 24;
                    let page = u64at(run, e);
                    let ks = u64at(run, e + 8) as usize;
                    let pos = u64at(run, e + 16) as usize;
                    let s = e.saturating_add(pos);
                    if s.saturating_add(ks) > run_len || s < hdr_end {
                        self.err(format!("{}: branch page {} element {} key lies outside its page run", what, id, i));
                        return;
                    }
                    let key = run[s..s + ks].to_vec();
                    if let Some(p) = &prev {
                        if *p >= key {
                            self.err(format!("{}: branch page {} separators not strictly ascending at {}", what, id, i));
                        }
                    }
                    prev = Some(key.clone());
                    if i == 0 {
                        if let Some(sp) = sep {
                            if key.as_slice() < sp {
                                self.err(format!("{}: first separator of branch page {} is below its parent separator", what, id));
                            }
                        }
                    }
                    children.push((key, page));
                }
                for (i, (key, page)) in children.iter().enumerate() {
                    if i > 0 {
                        // separator must exceed every key of the left sibling subtree
                        if let Some(lk) = last_key.as_ref() {
                            if lk.as_slice() >= key.as_slice() {
                                self.err(format!(
                                    "{}: separator {} of branch page {} does not exceed key {} in its left sibling subtree",
                                    what,
                                    crate::model::hex(key),
                                    id,
                                    crate::model::hex(lk)
                                ));
                            }
                        }
                    }
                    if *page < 2 {
                        self.err(format!("{}: branch page {} points at page {}", what, id, page));
                        continue;
                    }
                    self.subtree(*page, depth + 1, Some(key.as_slice()), out, bs, last_key, subs, path);
                }
            }
            T_LEAF => {
                self.shape.n_leaf += 1;
                let hdr_end = 32usize.saturating_add((count as usize).saturating_mul(32));
                if count > (run_len as u64) || hdr_end > run_len {
                    self.err(format!("{}: leaf page {} element table ({}) exceeds its run", what, id, count));
                    return;
                }
                let mut keys = Vec::with_capacity(count as usize);
                for i in 0..count as usize {
                    let e = 32 + i * 32;
                    let nt = run[e];
                    let pos = u64at(run, e + 8) as usize;
                    let ks = u64at(run, e + 16) as usize;
                    let vs = u64at(run, e + 24) as usize;
                    let s = e.saturating_add(pos);
                    if s.saturating_add(ks).saturating_add(vs) > run_len || s < hdr_end {
                        self.err(format!("{}: leaf page {} element {} lies outside its page run", what, id, i));
                        return;
                    }
                    let key = run[s..s + ks].to_vec();
                    let val = &run[s + ks..s + ks + vs];
                    if let Some(lk) = last_key.as_ref() {
                        if lk.as_slice() >= key.as_slice() {
                            self.err(format!(
                                "{}: key {} on leaf page {} is not greater than the previous key {}",
                                what,
                                crate::model::hex(&key),
                                id,
                                crate::model::hex(lk)
                            ));
                        }
                    }
                    if let Some(sp) = sep {
                        if key.as_slice() < sp {
                            self.err(format!(
                                "{}: key {} on leaf page {} is below its separator {}",
                                what,
                                crate::model::hex(&key),
                                id,
                                crate::model::hex(sp)
                            ));
                        }
                    }
                    match nt {
                        0 => {
                            out.entries.insert(key.clone(), Entry::Kv(val.to_vec()));
                        }
                        1 => {
                            if vs != 16 {
                                self.err(format!("{}: bucket element {} on page {} has value size {}", what, i, id, vs));
                            } else {
                                subs.push((key.clone(), u64at(val, 0), u64at(val, 8)));
                            }
                        }
                        x => {
                            self.err(format!("{}: leaf page {} element {} has invalid type {}", what, id, i, x));
                        }
                    }
                    if i == 0 && count >= 2 && ks >= 1 {
                        bs.first_key_at.push((id * self.ps + s as u64, run[s], 0));
                    }
                    if i == 1 && ks >= 1 {
                        if let Some(l) = bs.first_key_at.last_mut() {
                            if l.0 / self.ps == id {
                                l.2 = run[s];
                            }
                        }
                    }
                    *last_key = Some(key.clone());
                    keys.push(key);
                }
                bs.leaves.push(keys);
            }
            x => {
                self.err(format!("{}: page {} has type {} where a branch or leaf is expected", what, id, x));
            }
        }
    }
}

fn owner_name(t: u8) -> &'static str {
    match t {
        O_META => "header",
        O_TREE => "tree",
        O_FLPAGE => "free-list page",
        O_FREE => "free-list entry",
        _ => "?",
    }
}

pub fn pstr(p: &Path) -> String {
    let mut s = String::from("/");
    for (i, k) in p.iter().enumerate() {
        if i > 0 {
            s.push('/');
        }
        s.push_str(&crate::model::hex(k));
    }
    s
}

/// Full check of a file image. `buf` must hold at least the pages below the high-water mark;
/// `file_len` is the logical file length.
pub fn check(buf: &[u8], file_len: u64, pagesize: u64) -> Result<Report, String> {
    let header = choose_header(buf, pagesize).ok_or_else(|| "no valid header".to_string())?;
    let mut errors = Vec::new();
    if header.pagesize != pagesize {
        errors.push(format!("header page size {} != {}", header.pagesize, pagesize));
    }
    if header.magic != MAGIC {
        errors.push(format!("magic {:#x}", header.magic));
    }
    if header.version != VERSION {
        errors.push(format!("version {}", header.version));
    }
    if header.meta_page as u64 != header.slot {
        errors.push(format!("header in slot {} says slot {}", header.slot, header.meta_page));
    }
    let num_pages = header.num_pages;
    if num_pages < 4 || num_pages.saturating_mul(pagesize) > file_len {
        errors.push(format!(
            "high-water mark {} pages does not fit the file length {}",
            num_pages, file_len
        ));
        return Ok(Report { header, errors, contents: MBucket::default(), shape: Shape::default(), freelist: vec![] });
    }
    if (buf.len() as u64) < num_pages * pagesize {
        return Err(format!("buffer too short: {} < {}", buf.len(), num_pages * pagesize));
    }
    let mut w = Walk {
        buf,
        ps: pagesize,
        num_pages,
        owner: vec![0u8; num_pages as usize],
        errors,
        shape: Shape::default(),
    };
    w.owner[0] = O_META;
    w.owner[1] = O_META;
    // free list
    let mut freelist = Vec::new();
    if header.freelist_page < 2 || header.freelist_page >= num_pages {
        w.err(format!("free-list page {} out of range", header.freelist_page));
    } else if let Some((t, count, overflow)) = w.page(header.freelist_page, "free list") {
        if t != T_FREELIST {
            w.err(format!("free-list page {} has type {}", header.freelist_page, t));
        } else {
            w.claim(header.freelist_page, overflow.saturating_add(1), O_FLPAGE, "free-list page");
            let base = (header.freelist_page * pagesize) as usize;
            let run_len = ((overflow.saturating_add(1)).saturating_mul(pagesize)) as usize;
            if count.saturating_mul(8).saturating_add(32) > run_len as u64 || base + run_len > buf.len() {
                w.err(format!("free list of {} entries does not fit its page run", count));
            } else {
                w.shape.freelist_run = overflow + 1;
                let mut prev: Option<u64> = None;
                for i in 0..count as usize {
                    let id = u64at(buf, base + 32 + i * 8);
                    if let Some(p) = prev {
                        if p == id {
                            w.err(format!("free list contains page {} twice", id));
                        } else if p > id {
                            w.err(format!("free list not sorted at entry {} ({} after {})", i, id, p));
                        }
                    }
                    prev = Some(id);
                    freelist.push(id);
                }
            }
        }
    }
    // tree
    let mut contents = MBucket::default();
    if header.root_page < 2 || header.root_page >= num_pages {
        w.err(format!("root page {} out of range", header.root_page));
    } else {
        contents = w.bucket(header.root_page, header.root_next_int, &Vec::new(), 64);
    }
    // free entries claimed after the tree so that a double use names both owners
    let mut seen = std::collections::BTreeSet::new();
    for id in &freelist {
        if seen.insert(*id) {
            w.claim(*id, 1, O_FREE, "free-list entry");
        }
    }
    let mut unowned = Vec::new();
    for p in 2..num_pages {
        if w.owner[p as usize] == 0 {
            unowned.push(p);
        }
    }
    if !unowned.is_empty() {
        w.err(format!(
            "{} page(s) below the high-water mark are neither reachable nor free: {:?}",
            unowned.len(),
            &unowned[..unowned.len().min(8)]
        ));
    }
    w.shape.free = freelist.len() as u64;
    w.shape.hwm = num_pages;
    w.shape.file_len = file_len;
    w.shape.live_pages = num_pages.saturating_sub(freelist.len() as u64);
    w.shape.reachable_pages = w.owner.iter().filter(|o| matches!(**o, O_META | O_TREE | O_FLPAGE)).count() as u64;
    Ok(Report { header, errors: w.errors, contents, shape: w.shape, freelist })
}
