mod case;
mod cfg;
mod compat;
mod corrupt;
mod crash;
mod fault;
mod fsck;
mod gen;
mod isolate;
mod known;
mod long;
mod model;
mod props;
mod rng;
mod seq;
mod shrink;
mod simos;
mod step;
mod worker;

use case::{Case, Verdict};
use serde_json::{json, Value};
use std::collections::BTreeMap;
use worker::{case_seed, violation_from, violation_json, Acc};
use std::io::Write;

const DEFAULT_SEED: u64 = 20260925;

fn verif_seed() -> u64 {
    std::env::var("VERIF_SEED").ok().and_then(|s| s.trim().parse::<u64>().ok()).unwrap_or(DEFAULT_SEED)
}

fn jobs() -> usize {
    std::env::var("VERIF_JOBS")
        .ok()
        .and_then(|s| s.parse().ok())
        .unwrap_or_else(|| std::thread::available_parallelism().map(|n| n.get()).unwrap_or(4))
        .max(1)
}

fn verif_root() -> String {
    std::env::var("VERIF_ROOT").unwrap_or_else(|_| "/verif".to_string())
}

/// (engine, runs) per property and tier. Budgets are counts, not seconds, so the set of seeds
/// explored is the same on every machine. The thorough counts are sized for roughly 20-50 minutes
/// per property on 16 idle cores (a thorough C02 / C11 / C12 run is much deeper per history than a
/// quick one: all commits, all word subsets, more page sizes, second-level crashes everywhere).
fn plan(prop: &str, tier: &str) -> (&'static str, u64) {
    let thorough = tier == "thorough";
    match prop {
        "C01" => ("seq", if thorough { 1200000 } else { 24000 }),
        "C05" => ("seq", if thorough { 800000 } else { 24000 }),
        "C06" => ("seq", if thorough { 600000 } else { 20000 }),
        "C07" => ("seq", if thorough { 300000 } else { 10000 }),
        "C08" => ("seq", if thorough { 120000 } else { 6000 }),
        "C03" => ("seq", if thorough { 500000 } else { 8000 }),
        "C02" => ("crash", if thorough { 1200 } else { 1200 }),
        "C11" => ("fault", if thorough { 600 } else { 320 }),
        "C10" => ("long", if thorough { 5000 } else { 800 }),
        "C16" => ("cfg", if thorough { 320 } else { 128 }),
        "C15" => ("compat", if thorough { 700000 } else { 8000 }),
        "C04" => ("shuttle", if thorough { 2000000 } else { 160000 }),
        "C09" => ("shuttle", if thorough { 500000 } else { 32000 }),
        "C13" => ("shuttle", if thorough { 4000000 } else { 60000 }),
        "C12" => ("corrupt", if thorough { 1500 } else { 480 }),
        _ => ("none", 0),
    }
}

fn level_of(prop: &str) -> &'static str {
    match prop {
        "C02" | "C11" | "C12" => "fault_enumeration",
        _ => "exploration",
    }
}




// ---------------------------------------------------------------------------------------------
// worker

fn cmd_worker(args: &[String]) -> i32 {
    let (engine, _) = plan(&args[0], &args[1]);
    worker::run_worker(
        args,
        &|prop, seed, tier| props::draw_case(prop, engine, seed, tier),
        &|c| props::execute(c),
        &|| {
            simos::bypass(|| {
                let _ = std::fs::remove_dir_all(props::scratch_root());
            })
        },
    )
}

// ---------------------------------------------------------------------------------------------
// orchestrator

/// remove scratch directories left behind by processes that no longer exist (killed workers)
fn sweep_stale_scratch() {
    if let Ok(rd) = std::fs::read_dir("/dev/shm") {
        for e in rd.filter_map(|e| e.ok()) {
            let name = e.file_name().to_string_lossy().to_string();
            if let Some(pid) = name.strip_prefix("jammdb-verif.").and_then(|p| p.parse::<u32>().ok()) {
                if !std::path::Path::new(&format!("/proc/{}", pid)).exists() {
                    let _ = std::fs::remove_dir_all(e.path());
                }
            }
        }
    }
}

fn cmd_check(prop: &str, tier: &str) -> i32 {
    sweep_stale_scratch();
    let t0 = std::time::Instant::now();
    let base = verif_seed();
    let (engine, count) = plan(prop, tier);
    if engine == "none" {
        eprintln!("no check registered for {}", prop);
        return 2;
    }
    let count = std::env::var("VERIF_RUNS").ok().and_then(|s| s.parse().ok()).unwrap_or(count);
    let n = jobs() as u64;
    let root = verif_root();
    let outdir = format!("{}/out/work/{}-{}-{}", root, prop, tier, std::process::id());
    std::fs::create_dir_all(&outdir).unwrap();
    let exe = if engine == "shuttle" { std::path::PathBuf::from(props::sh_exe()) } else { std::env::current_exe().unwrap() };
    let spawn = |w: u64, start: u64, gen: u32| {
        let out = format!("{}/w{}-{}.json", outdir, w, gen);
        let ch = std::process::Command::new(&exe)
            .args(["worker", prop, tier, &start.to_string(), &n.to_string(), &base.to_string(), &count.to_string(), &out])
            .stderr(if engine == "shuttle" { std::process::Stdio::null() } else { std::process::Stdio::inherit() })
            .spawn()
            .expect("spawn worker");
        (w, ch, out, gen)
    };
    let mut children: Vec<(u64, std::process::Child, String, u32)> = (0..n).map(|w| spawn(w, w, 0)).collect();
    let mut acc = Acc::default();
    let mut harness_errors: Vec<String> = Vec::new();
    // a worker that dies (signal, abort, stack overflow) is a finding for the seed it announced
    let mut died: Vec<(u64, u64, String)> = Vec::new();
    // watchdog: a worker whose announced seed does not change for this long is hung (a real
    // deadlock or livelock inside the code under test): kill it, report the seed, carry on
    let hang_secs: u64 = std::env::var("VERIF_HANG_SECS").ok().and_then(|s| s.parse().ok()).unwrap_or(900);
    let mut hung: std::collections::BTreeSet<String> = Default::default();
    let mut last_progress: BTreeMap<String, (String, std::time::Instant)> = BTreeMap::new();
    while !children.is_empty() {
        // poll
        let mut finished = None;
        for (i, (_, ch, out, _)) in children.iter_mut().enumerate() {
            match ch.try_wait() {
                Ok(Some(_)) => {
                    finished = Some(i);
                    break;
                }
                _ => {
                    let p = std::fs::read_to_string(format!("{}.progress", out)).unwrap_or_default();
                    let e = last_progress.entry(out.clone()).or_insert_with(|| (p.clone(), std::time::Instant::now()));
                    if e.0 != p {
                        *e = (p, std::time::Instant::now());
                    } else if e.1.elapsed().as_secs() > hang_secs {
                        let _ = ch.kill();
                        hung.insert(out.clone());
                    }
                }
            }
        }
        let i = match finished {
            Some(i) => i,
            None => {
                std::thread::sleep(std::time::Duration::from_millis(100));
                continue;
            }
        };
        let (w, mut ch, out, gen) = children.remove(i);
        let st = ch.wait().expect("wait");
        match std::fs::read(&out).ok().and_then(|b| serde_json::from_slice::<Value>(&b).ok()) {
            Some(v) if st.success() => acc.merge_json(&v),
            _ => {
                let p = std::fs::read_to_string(format!("{}.progress", out)).unwrap_or_default();
                let mut it = p.split_whitespace();
                let idx: Option<u64> = it.next().and_then(|x| x.parse().ok());
                let seed: Option<u64> = it.next().and_then(|x| x.parse().ok());
                // partial results of the dead worker
                if let Some(v) = std::fs::read(format!("{}.partial", out)).ok().and_then(|b| serde_json::from_slice::<Value>(&b).ok()) {
                    acc.merge_json(&v);
                }
                match (idx, seed) {
                    (Some(i), Some(sd)) => {
                        let how = if hung.contains(&out) { format!("hung: no progress for {} s, killed", hang_secs) } else { format!("{:?}", st) };
                        died.push((i, sd, how));
                        if gen < 24 && i + n < count {
                            children.push(spawn(w, i + n, gen + 1));
                        }
                    }
                    _ => harness_errors.push(format!("worker {} ended with {:?} before announcing a seed", w, st)),
                }
            }
        }
    }
    if prop == "C10" {
        // second part of C10: readers on other threads (shuttle); once they are all gone,
        // reuse must resume. Runs through jsim-sh with the same seed derivation.
        let sh = std::path::PathBuf::from(props::sh_exe());
        let count2: u64 = std::env::var("VERIF_RUNS").ok().and_then(|s| s.parse().ok()).unwrap_or(if tier == "thorough" { 400_000 } else { 24_000 });
        let mut kids = Vec::new();
        for w in 0..n {
            let out = format!("{}/sh{}.json", outdir, w);
            let ch = std::process::Command::new(&sh)
                .args(["worker", prop, tier, &w.to_string(), &n.to_string(), &base.to_string(), &count2.to_string(), &out])
                .stderr(std::process::Stdio::null())
                .spawn();
            match ch {
                Ok(c) => kids.push((c, out)),
                Err(e) => harness_errors.push(format!("cannot start jsim-sh: {}", e)),
            }
        }
        for (mut c, out) in kids {
            let st = c.wait();
            match std::fs::read(&out).ok().and_then(|b| serde_json::from_slice::<Value>(&b).ok()) {
                Some(v) if st.map(|s| s.success()).unwrap_or(false) => acc.merge_json(&v),
                _ => harness_errors.push(format!("jsim-sh worker for C10 failed ({})", out)),
            }
        }
    }
    if prop == "C15" {
        // the committed byte-exact golden images, independent of the vendored pinned copy
        let mut gv = Verdict::default();
        compat::check_golden(&format!("{}/golden", root), &mut gv);
        let gcase = Case::new("C15", "golden", 0);
        gv.stats.commits = gv.counters.get("golden_files_checked").copied().unwrap_or(0);
        gv.stats.steps = 10;
        acc.add(&gcase, &gv);
    }
    harness_errors.extend(acc.harness.iter().cloned());

    // minimise and classify
    let known = known::load(&format!("{}/known_findings.json", root));
    let mut by_site: BTreeMap<String, (Value, Value)> = BTreeMap::new();
    for (c, v) in &acc.violations {
        let key = format!("{} @ {}", v["oracle"].as_str().unwrap_or(""), v["site"].as_str().unwrap_or(""));
        by_site.entry(key).or_insert((c.clone(), v.clone()));
    }
    let replay_dir = format!("{}/out/replays", root);
    std::fs::create_dir_all(&replay_dir).unwrap();
    let mut new_violations: Vec<(String, String)> = Vec::new();
    let mut minimised = Vec::new();
    let mut known_hits: BTreeMap<String, u64> = BTreeMap::new();
    // runs that killed their process: re-executed in child processes and minimised there (the
    // child streams its steps / scheduling decisions to a side file before acting on them).
    // Distinct signals are minimised once each; the others keep their seeded form.
    let mut died_minimised: std::collections::BTreeSet<String> = Default::default();
    for (i, seed, st) in &died {
        let case = props::draw_case(prop, engine, *seed, tier);
        let path = format!("{}/{}-{}-died.json", replay_dir, prop, seed);
        let hung_run = st.starts_with("hung");
        let small = if hung_run || died_minimised.len() >= 3 || died_minimised.contains(st) {
            None
        } else if engine == "shuttle" {
            isolate::minimise_died_sh(&case, 300)
        } else {
            isolate::minimise_died_seq(&case, 200)
        };
        match small {
            Some((small, viol, runs)) => {
                died_minimised.insert(st.clone());
                let mut doc = small.to_json();
                doc["violation"] = violation_json(&viol);
                doc["shrink_runs"] = json!(runs);
                std::fs::write(&path, serde_json::to_string_pretty(&doc).unwrap()).unwrap();
                let n_steps = small.steps.as_ref().map(|s| s.len()).unwrap_or(0);
                let n_sched = small.extra["sched"]["list"].as_array().map(|a| a.len()).unwrap_or(0);
                minimised.push(json!({"site": format!("process-died @ {}", viol.site), "count": 1, "replay": path, "steps": n_steps, "schedule_decisions": n_sched, "detail": viol.detail}));
                new_violations.push((path, format!("process-died: the run with seed {} kills its process: {} (minimised to {} step(s), {} scheduling decision(s))", seed, viol.detail, n_steps, n_sched)));
            }
            _ => {
                let mut doc = case.to_json();
                doc["violation"] = json!({"oracle": "process-died", "site": st, "detail": format!("the process executing run index {} died: {}", i, st)});
                std::fs::write(&path, serde_json::to_string_pretty(&doc).unwrap()).unwrap();
                new_violations.push((path, format!("process-died: the simulated run with seed {} killed its process ({})", seed, st)));
            }
        }
    }
    for (key, (c, v)) in by_site.iter().take(8) {
        let case = match Case::from_json(c) {
            Some(c) => c,
            None => {
                harness_errors.push(format!("cannot parse case for {}", key));
                continue;
            }
        };
        let budget = if case.engine == "seq" { 600 } else { 250 };
        let (mut small, runs) = if case.engine == "shuttle" {
            // schedules and scenario parameters are minimised on the shuttle side
            match props::sh_child("minimise", &case).ok().and_then(|o| Case::from_json(&o)) {
                Some(m) => (m, 0),
                None => (case.clone(), 0),
            }
        } else {
            shrink::shrink(&case, &|c| props::execute(c), budget)
        };
        let mut verdict = props::execute(&small);
        // engines that search a fault space record the one failing point for the replay
        if let Some(o) = verdict.extra_out.as_object() {
            if !o.is_empty() && case.engine != "shuttle" {
                let mut pinned = small.clone();
                pinned.extra = verdict.extra_out.clone();
                if !verdict.issued.is_empty() {
                    // the searching engine may have extended the history (aftermath steps)
                    pinned.steps = Some(verdict.issued.clone());
                }
                let v2 = props::execute(&pinned);
                if v2.violation.is_some() {
                    small = pinned;
                    small.trace = Some(v2.trace);
                    verdict = v2;
                }
            }
        }
        let viol = verdict.violation.clone().or_else(|| violation_from(v));
        let viol = match viol {
            Some(x) => x,
            None => continue,
        };
        let path = format!("{}/{}-{}-{}.json", replay_dir, prop, small.seed, minimised.len());
        let mut doc = small.to_json();
        doc["violation"] = violation_json(&viol);
        doc["shrink_runs"] = json!(runs);
        std::fs::write(&path, serde_json::to_string_pretty(&doc).unwrap()).unwrap();
        minimised.push(json!({"site": key, "count": acc.per_site.get(key).copied().unwrap_or(0), "replay": path,
            "steps": small.steps.as_ref().map(|s| s.len()).unwrap_or(0), "detail": viol.detail}));
        match known::classify(&known, prop, &viol, &small) {
            Some(id) => {
                *known_hits.entry(id).or_default() += acc.per_site.get(key).copied().unwrap_or(1);
            }
            None => new_violations.push((path, format!("{}: {}", key, viol.detail))),
        }
    }
    // regression corpus: the minimised replay of every defect repaired so far must stay clean
    let mut regression = Vec::new();
    if let Ok(rd) = std::fs::read_dir(format!("{}/replays/known", root)) {
        let mut files: Vec<_> = rd.filter_map(|e| e.ok()).map(|e| e.path()).filter(|p| p.file_name().and_then(|n| n.to_str()).map(|n| n.starts_with(&format!("{}-", prop)) && n.ends_with(".json")).unwrap_or(false)).collect();
        files.sort();
        for f in files {
            let path = f.to_string_lossy().to_string();
            if let Some(c) = std::fs::read(&f).ok().and_then(|b| serde_json::from_slice::<Value>(&b).ok()).and_then(|v| Case::from_json(&v)) {
                let v = props::execute(&c);
                let bad = v.violation.is_some();
                regression.push(json!({"replay": path, "violation": bad}));
                if let Some(x) = v.violation {
                    new_violations.push((path.clone(), format!("regression: a repaired defect is back: {} @ {}: {}", x.oracle, x.site, x.detail)));
                }
                if let Some(h) = v.harness_error {
                    harness_errors.push(format!("{}: {}", path, h));
                }
            }
        }
    }
    simos::bypass(|| {
        let _ = std::fs::remove_dir_all(props::scratch_root());
    });
    let _ = std::fs::remove_dir_all(&outdir);
    // workers that were killed or died could not remove their scratch directories
    sweep_stale_scratch();

    // known findings are re-executed from their stored replay on every run
    let mut known_lines = Vec::new();
    for k in known.open.iter().filter(|k| k.property == prop) {
        let still = known::reproduces(k, &root);
        let hits = known_hits.get(&k.id).copied().unwrap_or(0);
        known_lines.push(format!(
            "KNOWN-FINDING: property={} {} [id={} stored replay {} ; matched {} run(s) of this batch]",
            prop,
            k.what_fails,
            k.id,
            if still { "still reproduces" } else { "no longer reproduces" },
            hits
        ));
    }

    let wall = t0.elapsed().as_secs_f64();
    let distinct = acc.nontrivial.len() as u64;
    let mut samples = acc.samples.clone();
    if samples.is_empty() {
        samples.push(json!({"note": "no run produced a commit"}));
    }
    let ev = json!({
        "property_id": prop,
        "tier": tier,
        "seed": base,
        "level": level_of(prop),
        "wall_s": wall,
        "violations": new_violations.len(),
        "coverage": {
            "evaluations": acc.runs,
            "distinct_nontrivial": distinct,
            "rule": rule_text(engine),
            "samples": samples,
            "runs_per_hour": if wall > 0.0 { (acc.runs as f64 / wall * 3600.0) as u64 } else { 0 },
            "simulated_time": {"unit": "SimOS calls + API steps (jammdb has no clock)", "simos_calls": acc.sim_events, "api_steps": acc.steps, "commits": acc.commits},
            "distinct_tree_shapes": acc.shapes.len(),
            "ops": acc.ops,
            "probes": acc.probes,
            "fault_kinds_fired": acc.counters,
            "probe_inputs_enumerated": acc.probe_inputs,
            "reader_reverifications": acc.reader_checks,
            "runs_ended_early_by_other_properties_oracles": acc.aborted,
            "runs_skipped": acc.skipped,
            "workers": n,
            "violations_by_site": acc.per_site,
            "minimised": minimised,
            "known_findings_matched": known_hits,
            "regression_replays": regression,
            "harness_errors": harness_errors,
            "real_vs_stub": real_vs_stub(),
        },
        "assumptions": assumptions(prop),
    });
    // tools that run the checks against a deliberately broken tree redirect the evidence so
    // that the committed files always describe the unchanged tree
    let evdir = std::env::var("VERIF_EVIDENCE_DIR").unwrap_or_else(|_| format!("{}/evidence", root));
    std::fs::create_dir_all(&evdir).unwrap();
    std::fs::write(format!("{}/{}.json", evdir, prop), serde_json::to_string_pretty(&ev).unwrap()).unwrap();

    println!(
        "{} {}: {} runs ({} distinct non-trivial), {} commits, {:.1}s, {} worker(s)",
        prop, tier, acc.runs, distinct, acc.commits, wall, n
    );
    for l in &known_lines {
        println!("{}", l);
    }
    if !harness_errors.is_empty() {
        for h in harness_errors.iter().take(5) {
            eprintln!("HARNESS-ERROR: {}", h);
        }
        return 2;
    }
    if !new_violations.is_empty() {
        for (p, d) in &new_violations {
            println!("VIOLATION property={} replay={}", prop, p);
            println!("  {}", &d[..d.len().min(400)]);
        }
        return 1;
    }
    0
}

fn rule_text(engine: &str) -> &'static str {
    match engine {
        "crash" => "one evaluation = one seeded history whose commits are crashed: the crash images synthesised from it (process-kill prefixes, power-loss subsets, sector and word tears, second-level crashes) are counted in fault_kinds_fired.images; non-trivial = the history has at least one successful commit and more than 5 steps; distinct = distinct fingerprints of the history's API outcomes and SimOS events",
        "fault" => "one evaluation = one seeded history re-executed once per (chosen commit, I/O call index, fault kind) plus sampled pairs; the individual fault injections are counted in fault_kinds_fired.fault_runs and per kind; non-trivial = the fault-free history has a successful commit; distinct = distinct history fingerprints",
        "corrupt" => "one evaluation = one seeded history of n commits (n in 0..6) whose two header pages are damaged at every byte offset in five ways plus block damage; images counted in fault_kinds_fired.images; non-trivial = n >= 1; distinct = distinct history fingerprints",
        "long" => "one evaluation = one long run (hundreds to thousands of transactions) of a steady-state workload; non-trivial = at least 20 commits; distinct = distinct sequences of (high-water mark, live pages) after every commit",
        "cfg" => "one evaluation = one seeded history executed under a set of option combinations (counted in fault_kinds_fired.configs_run), each in its own child process; non-trivial = the history commits; distinct = distinct API transcripts",
        "compat" => "one evaluation = one database written by the vendored pinned release and taken over by the current tree (contents, continuation, legacy headers, page-size mismatch, cross-version read-back, fresh-file conformance) plus one evaluation for the committed golden images; distinct = distinct (old contents, new contents) digests",
        "shuttle" => "one evaluation = one execution of the scenario under one seeded schedule (random, PCT or bounded preemption); non-trivial = every execution (each runs at least one commit); distinct = distinct sequences of scheduling decisions",
        _ => "one evaluation = one seeded simulated run (swarm-configured workload against the reference model through SimOS); non-trivial = at least one successful commit and more than 5 steps; distinct = distinct fingerprints over every API outcome and SimOS event of the run",
    }
}

fn real_vs_stub() -> Value {
    json!({
        "real": ["jammdb (all modules, from /repo's working tree)", "std::fs / memmap2 / fs4 / rustix(libc backend)", "kernel page cache and mmap coherence on tmpfs"],
        "simulated": ["durable medium (what survives a crash), sector and word tears", "flock (in-process table with flock(2) semantics)", "getrandom (seeded)", "fallocate (executed as sparse ftruncate)", "I/O errors (by plan)", "time on the threads that execute runs: nanosleep / clock_nanosleep / usleep cost nothing and advance a per-thread clock that clock_gettime reports (jammdb itself has no timers)", "media damage at rest (bytes changed behind the code's back: C12, C06)"],
    })
}

fn assumptions(prop: &str) -> Vec<String> {
    let mut v = vec![
        "sampling of seeded histories, not enumeration".to_string(),
        "the reference model (sim/src/model.rs) and the independent file checker (sim/src/fsck.rs) are trusted".to_string(),
        "I/O reaches the disk only through the intercepted libc entry points (a writable shared mapping or a shadow/file mismatch is reported as a harness error)".to_string(),
    ];
    if prop == "C03" {
        v.push("logical concurrency on one thread; files start large enough that no commit extends the file while a reader is open (documented self-deadlock otherwise)".into());
    }
    v
}

/// Determinism proof obligation: the same seeds executed in different processes, with worker
/// counts 1 and 16, must give identical fingerprints (every API outcome, every SimOS event
/// including bytes written, every scheduling decision, every counter).
fn cmd_selftest(tier: &str) -> i32 {
    let t0 = std::time::Instant::now();
    let base = verif_seed();
    let per_prop: u64 = if tier == "thorough" { 2000 } else { 300 };
    let mut results = Vec::new();
    let mut bad = 0u64;
    for prop in props::ALL {
        let (engine, _) = plan(prop, "quick");
        let exe = if engine == "shuttle" { std::path::PathBuf::from(props::sh_exe()) } else { std::env::current_exe().unwrap() };
        let count = match engine {
            "fault" | "cfg" => per_prop / 10,
            "crash" | "corrupt" | "long" => per_prop / 3,
            _ => per_prop,
        }
        .max(16);
        let run = |stride: u64| -> BTreeMap<u64, String> {
            let mut children = Vec::new();
            for w in 0..stride {
                let ch = std::process::Command::new(&exe)
                    .args(["traces", prop, "quick", &w.to_string(), &stride.to_string(), &base.to_string(), &count.to_string()])
                    .stdout(std::process::Stdio::piped())
                    .stderr(std::process::Stdio::null())
                    .spawn()
                    .expect("spawn");
                children.push(ch);
            }
            let mut m = BTreeMap::new();
            for ch in children {
                let out = ch.wait_with_output().expect("wait");
                for l in String::from_utf8_lossy(&out.stdout).lines() {
                    let mut it = l.split_whitespace();
                    if let (Some(i), Some(f)) = (it.next().and_then(|x| x.parse().ok()), it.next()) {
                        m.insert(i, f.to_string());
                    }
                }
            }
            m
        };
        let a = run(16);
        let b = run(3);
        let c = run(1);
        let mut diffs = Vec::new();
        for (i, f) in &a {
            if b.get(i) != Some(f) || c.get(i) != Some(f) {
                diffs.push(*i);
            }
        }
        if a.len() as u64 != count || b.len() != a.len() || c.len() != a.len() {
            diffs.push(u64::MAX);
        }
        println!("selftest {}: {} seeds x 3 process layouts (16, 3, 1 workers), {} differ", prop, a.len(), diffs.len());
        bad += diffs.len() as u64;
        results.push(json!({"property": prop, "engine": engine, "seeds": a.len(), "layouts": [16, 3, 1], "differences": diffs.len(), "first": diffs.first()}));
    }
    let root = verif_root();
    let _ = std::fs::create_dir_all(format!("{}/evidence", root));
    let _ = std::fs::write(
        format!("{}/selftest-report.json", root),
        serde_json::to_string_pretty(&json!({"tier": tier, "seed": base, "wall_s": t0.elapsed().as_secs_f64(), "results": results})).unwrap(),
    );
    if bad > 0 {
        eprintln!("HARNESS-ERROR: {} run(s) are not deterministic", bad);
        return 2;
    }
    0
}

fn cmd_replay(path: &str) -> i32 {
    let doc: Value = match std::fs::read(path).ok().and_then(|b| serde_json::from_slice(&b).ok()) {
        Some(v) => v,
        None => {
            eprintln!("cannot read {}", path);
            return 2;
        }
    };
    let case = match Case::from_json(&doc) {
        Some(c) => c,
        None => {
            eprintln!("cannot parse {}", path);
            return 2;
        }
    };
    let v = props::execute(&case);
    simos::bypass(|| {
        let _ = std::fs::remove_dir_all(props::scratch_root());
    });
    if let Some(h) = &v.harness_error {
        eprintln!("HARNESS-ERROR: {}", h);
        return 2;
    }
    println!("trace={:016x} expected_trace={}", v.trace, case.trace.map(|t| format!("{:016x}", t)).unwrap_or_else(|| "-".into()));
    match &v.violation {
        Some(x) => {
            println!("VIOLATION property={} replay={}", case.property, path);
            println!("  oracle={} site={}", x.oracle, x.site);
            println!("  {}", x.detail);
            if let Some((o, s)) = &case.expect {
                if *o != x.oracle || *s != x.site {
                    println!("  (differs from the recorded violation {} @ {})", o, s);
                }
            }
            1
        }
        None => {
            println!("no violation (aborted={:?})", v.aborted.as_ref().map(|a| format!("{} @ {}: {}", a.oracle, a.site, a.detail)));
            0
        }
    }
}

fn cmd_run(prop: &str, seed_or_index: &str, verbose: bool) -> i32 {
    let (engine, _) = plan(prop, "quick");
    let idx: u64 = seed_or_index.parse().unwrap_or(0);
    let seed = if seed_or_index.starts_with('#') { seed_or_index[1..].parse().unwrap() } else { case_seed(verif_seed(), prop, idx) };
    let case = props::draw_case(prop, engine, seed, "quick");
    let v = props::execute(&case);
    println!("counters={:?}", v.counters);
    println!("seed={} steps={} commits={} trace={:016x}", seed, v.stats.steps, v.stats.commits, v.trace);
    println!("probes={:?}", v.stats.probes);
    if verbose {
        for (i, s) in v.issued.iter().enumerate() {
            println!("{:4} {}", i, s.to_json());
        }
    }
    println!("violation={:?}\naborted={:?}\nharness={:?}", v.violation, v.aborted, v.harness_error);
    0
}

fn main() {
    seq::install_panic_hook();
    let args: Vec<String> = std::env::args().skip(1).collect();
    if matches!(args.first().map(|s| s.as_str()), Some("worker") | Some("traces") | Some("exec-case") | Some("replay-inner") | Some("oneshot") | Some("run")) {
        simos::limit_address_space();
    }
    let code = match args.first().map(|s| s.as_str()) {
        Some("check") if args.len() >= 3 => cmd_check(&args[1], &args[2]),
        Some("worker") if args.len() >= 8 => cmd_worker(&args[1..]),
        Some("traces") if args.len() >= 7 => {
            let (engine, _) = plan(&args[1], &args[2]);
            worker::run_traces(&args[1..], &|prop, seed, tier| props::draw_case(prop, engine, seed, tier), &|c| props::execute(c), &|| {
                simos::bypass(|| {
                    let _ = std::fs::remove_dir_all(props::scratch_root());
                })
            })
        }
        Some("selftest") => cmd_selftest(args.get(1).map(|s| s.as_str()).unwrap_or("quick")),
        // the replay itself runs in a child process: a run that kills its process (abort,
        // segmentation fault) must be reported as the violation it is, not take the tool down
        Some("replay") if args.len() >= 2 => {
            let st = std::process::Command::new(std::env::current_exe().unwrap()).args(["replay-inner", &args[1]]).env("JSIM_VERBOSE_PANICS", "1").status();
            match st {
                Ok(s) if s.code().is_some() => s.code().unwrap(),
                Ok(s) => {
                    let prop = std::fs::read(&args[1])
                        .ok()
                        .and_then(|b| serde_json::from_slice::<Value>(&b).ok())
                        .and_then(|v| v.get("property").and_then(|p| p.as_str()).map(|s| s.to_string()))
                        .unwrap_or_default();
                    println!("VIOLATION property={} replay={}", prop, args[1]);
                    println!("  oracle=process-died site={:?}", s);
                    println!("  executing the recorded run killed its process: {:?}", s);
                    1
                }
                Err(e) => {
                    eprintln!("HARNESS-ERROR: cannot spawn the replay: {}", e);
                    2
                }
            }
        }
        Some("replay-inner") if args.len() >= 2 => cmd_replay(&args[1]),
        Some("exec-case") => isolate::exec_case_main(),
        Some("oneshot") => cfg::oneshot(),
        Some("make-golden") if args.len() >= 2 => match compat::make_golden(&args[1]) {
            Ok(()) => 0,
            Err(e) => {
                eprintln!("{}", e);
                2
            }
        },
        Some("run") if args.len() >= 3 => cmd_run(&args[1], &args[2], args.get(3).map(|s| s == "-v").unwrap_or(false)),
        _ => {
            eprintln!("usage: jsim check <Cxx> <quick|thorough> | replay <file> | run <Cxx> <index|#seed> [-v]");
            2
        }
    };
    let _ = std::io::stdout().flush();
    std::process::exit(code);
}
