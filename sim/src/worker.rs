//! Worker side of a check, shared by jsim and jsim-sh: run a slice of the seeds, accumulate.
use crate::case::{Case, Verdict};
use crate::rng;
use crate::seq;
use serde_json::{json, Value};
use std::collections::{BTreeMap, BTreeSet};

pub fn salt(prop: &str) -> u64 {
    let mut h = rng::Fnv::default();
    h.str(prop);
    h.0
}

pub fn case_seed(base: u64, prop: &str, i: u64) -> u64 {
    rng::mix(rng::mix(base, salt(prop)), i)
}

pub fn violation_json(v: &seq::Violation) -> Value {
    json!({"oracle": v.oracle, "site": v.site, "detail": v.detail, "step": v.step, "in_rw_tx": v.in_rw_tx})
}

pub fn violation_from(v: &Value) -> Option<seq::Violation> {
    Some(seq::Violation {
        oracle: v.get("oracle")?.as_str()?.into(),
        site: v.get("site")?.as_str()?.into(),
        detail: v.get("detail")?.as_str()?.into(),
        step: v.get("step").and_then(|x| x.as_u64()).unwrap_or(0) as usize,
        in_rw_tx: v.get("in_rw_tx").and_then(|x| x.as_bool()).unwrap_or(false),
    })
}

pub fn verdict_json(v: &Verdict) -> Value {
    json!({
        "violation": v.violation.as_ref().map(violation_json),
        "aborted": v.aborted.as_ref().map(violation_json),
        "skipped": v.skipped,
        "trace": format!("{:016x}", v.trace),
        "extra_out": v.extra_out,
        "counters": v.counters,
        "sim_events": v.sim_events,
        "harness": v.harness_error,
        "commits": v.stats.commits,
        "steps": v.stats.steps,
        "probes": v.stats.probes.iter().map(|(k, n)| (k.to_string(), *n)).collect::<BTreeMap<String, u64>>(),
    })
}

pub fn verdict_from(o: &Value) -> Verdict {
    let mut v = Verdict::default();
    v.violation = o.get("violation").filter(|x| !x.is_null()).and_then(violation_from);
    v.aborted = o.get("aborted").filter(|x| !x.is_null()).and_then(violation_from);
    v.skipped = o.get("skipped").and_then(|x| x.as_str()).map(|s| s.to_string());
    v.trace = o.get("trace").and_then(|x| x.as_str()).and_then(|s| u64::from_str_radix(s, 16).ok()).unwrap_or(0);
    v.extra_out = o.get("extra_out").cloned().unwrap_or(Value::Null);
    if let Some(c) = o.get("counters").and_then(|x| x.as_object()) {
        for (k, n) in c {
            v.counters.insert(k.clone(), n.as_u64().unwrap_or(0));
        }
    }
    v.sim_events = o.get("sim_events").and_then(|x| x.as_u64()).unwrap_or(0);
    v.harness_error = o.get("harness").and_then(|x| x.as_str()).map(|s| s.to_string());
    v.stats.commits = o.get("commits").and_then(|x| x.as_u64()).unwrap_or(0);
    v.stats.steps = o.get("steps").and_then(|x| x.as_u64()).unwrap_or(0);
    v
}

#[derive(Default)]
pub struct Acc {
    pub runs: u64,
    pub nontrivial: BTreeSet<u64>,
    pub shapes: BTreeSet<u64>,
    pub ops: BTreeMap<String, u64>,
    pub probes: BTreeMap<String, u64>,
    pub counters: BTreeMap<String, u64>,
    pub aborted: BTreeMap<String, u64>,
    pub skipped: u64,
    pub steps: u64,
    pub commits: u64,
    pub sim_events: u64,
    pub probe_inputs: u64,
    pub reader_checks: u64,
    pub violations: Vec<(Value, Value)>,
    pub per_site: BTreeMap<String, u64>,
    pub harness: Vec<String>,
    pub samples: Vec<Value>,
}

impl Acc {
    pub fn add(&mut self, case: &Case, v: &Verdict) {
        self.runs += 1;
        if let Some(h) = &v.harness_error {
            if self.harness.len() < 5 {
                self.harness.push(format!("seed {}: {}", case.seed, h));
            }
        }
        if v.stats.commits > 0 && v.stats.steps > 5 {
            self.nontrivial.insert(v.trace);
        }
        for s in &v.stats.shape_sigs {
            self.shapes.insert(*s);
        }
        for (k, n) in &v.stats.ops {
            *self.ops.entry(k.clone()).or_default() += n;
        }
        for (k, n) in &v.stats.probes {
            *self.probes.entry(k.to_string()).or_default() += n;
        }
        for (k, n) in &v.counters {
            *self.counters.entry(k.clone()).or_default() += n;
        }
        if let Some(a) = &v.aborted {
            *self.aborted.entry(format!("{} @ {}", a.oracle, a.site)).or_default() += 1;
            if std::env::var_os("JSIM_SHOW_ABORTED").is_some() {
                eprintln!("ABORTED seed={} {} @ {}: {}", case.seed, a.oracle, a.site, &a.detail[..a.detail.len().min(300)]);
            }
        }
        if v.skipped.is_some() {
            self.skipped += 1;
        }
        self.steps += v.stats.steps;
        self.commits += v.stats.commits;
        self.sim_events += v.sim_events;
        self.probe_inputs += v.stats.probe_inputs;
        self.reader_checks += v.stats.reader_checks;
        if let Some(x) = &v.violation {
            let key = format!("{} @ {}", x.oracle, x.site);
            let n = self.per_site.entry(key).or_default();
            *n += 1;
            if *n <= 2 {
                let mut c = case.clone();
                if c.steps.is_none() && !v.issued.is_empty() {
                    c.steps = Some(v.issued.clone());
                }
                self.violations.push((c.to_json(), violation_json(x)));
            }
        }
        if self.samples.len() < 2 && v.stats.commits > 0 && (!v.issued.is_empty() || !v.extra_out.is_null()) {
            let steps: Vec<Value> = v.issued.iter().take(14).map(|s| s.to_json()).collect();
            self.samples.push(json!({
                "seed": case.seed.to_string(), "pagesize": case.pagesize, "steps_total": v.issued.len(),
                "commits": v.stats.commits, "first_steps": steps, "trace": format!("{:016x}", v.trace),
                "extra": v.extra_out,
            }));
        }
    }

    pub fn to_json(&self) -> Value {
        json!({
            "runs": self.runs,
            "nontrivial": self.nontrivial.iter().map(|x| x.to_string()).collect::<Vec<_>>(),
            "shapes": self.shapes.iter().map(|x| x.to_string()).collect::<Vec<_>>(),
            "ops": self.ops, "probes": self.probes, "counters": self.counters, "aborted": self.aborted,
            "skipped": self.skipped, "steps": self.steps, "commits": self.commits, "sim_events": self.sim_events,
            "probe_inputs": self.probe_inputs, "reader_checks": self.reader_checks,
            "violations": self.violations.iter().map(|(c, v)| json!({"case": c, "violation": v})).collect::<Vec<_>>(),
            "per_site": self.per_site, "harness": self.harness, "samples": self.samples,
        })
    }

    pub fn merge_json(&mut self, v: &Value) {
        let u = |k: &str| v.get(k).and_then(|x| x.as_u64()).unwrap_or(0);
        self.runs += u("runs");
        self.skipped += u("skipped");
        self.steps += u("steps");
        self.commits += u("commits");
        self.sim_events += u("sim_events");
        self.probe_inputs += u("probe_inputs");
        self.reader_checks += u("reader_checks");
        for (k, set) in [("nontrivial", &mut self.nontrivial), ("shapes", &mut self.shapes)] {
            if let Some(a) = v.get(k).and_then(|x| x.as_array()) {
                for x in a {
                    if let Some(n) = x.as_str().and_then(|s| s.parse().ok()) {
                        set.insert(n);
                    }
                }
            }
        }
        for (k, map) in [
            ("ops", &mut self.ops),
            ("probes", &mut self.probes),
            ("counters", &mut self.counters),
            ("aborted", &mut self.aborted),
            ("per_site", &mut self.per_site),
        ] {
            if let Some(o) = v.get(k).and_then(|x| x.as_object()) {
                for (kk, n) in o {
                    *map.entry(kk.clone()).or_default() += n.as_u64().unwrap_or(0);
                }
            }
        }
        if let Some(a) = v.get("violations").and_then(|x| x.as_array()) {
            for x in a {
                self.violations.push((x["case"].clone(), x["violation"].clone()));
            }
        }
        if let Some(a) = v.get("harness").and_then(|x| x.as_array()) {
            for x in a {
                self.harness.push(x.as_str().unwrap_or("").to_string());
            }
        }
        if let Some(a) = v.get("samples").and_then(|x| x.as_array()) {
            for x in a {
                if self.samples.len() < 3 {
                    self.samples.push(x.clone());
                }
            }
        }
    }
}


/// `args` = [prop, tier, start, stride, base_seed, count, out_file]
pub fn run_worker(args: &[String], draw: &dyn Fn(&str, u64, &str) -> Case, exec: &dyn Fn(&Case) -> Verdict, cleanup: &dyn Fn()) -> i32 {
    let prop = &args[0];
    let tier = &args[1];
    let start: u64 = args[2].parse().unwrap();
    let n: u64 = args[3].parse().unwrap();
    let base: u64 = args[4].parse().unwrap();
    let count: u64 = args[5].parse().unwrap();
    let out = &args[6];
    let progress = format!("{}.progress", out);
    let mut acc = Acc::default();
    let mut i = start;
    let mut since_partial = 0u32;
    while i < count {
        let seed = case_seed(base, prop, i);
        // announce the seed first: if this process dies, the orchestrator knows where
        let _ = std::fs::write(&progress, format!("{} {}", i, seed));
        let case = draw(prop, seed, tier);
        let v = exec(&case);
        acc.add(&case, &v);
        i += n;
        since_partial += 1;
        if since_partial >= 200 {
            since_partial = 0;
            let _ = std::fs::write(format!("{}.partial", out), serde_json::to_vec(&acc.to_json()).unwrap());
        }
    }
    let _ = std::fs::remove_file(&progress);
    // time is simulated on the threads that execute runs (jammdb has no timers of its own, so
    // these stay at zero on the unchanged tree)
    let (sleeps, ns) = crate::simos::simulated_sleeps();
    acc.counters.insert("simulated_sleeps".into(), sleeps);
    acc.counters.insert("simulated_sleep_ms".into(), ns / 1_000_000);
    std::fs::write(out, serde_json::to_vec(&acc.to_json()).unwrap()).unwrap();
    cleanup();
    0
}

/// Everything observable about one run, folded into one number (determinism self-check).
pub fn fingerprint(v: &Verdict) -> u64 {
    let mut h = rng::Fnv::default();
    h.u64(v.trace);
    h.u64(v.sim_events);
    h.u64(v.stats.steps);
    h.u64(v.stats.commits);
    for (k, n) in &v.counters {
        h.str(k);
        h.u64(*n);
    }
    if let Some(x) = &v.violation {
        h.str(&x.oracle);
        h.str(&x.site);
        h.str(&x.detail);
    }
    if let Some(x) = &v.aborted {
        h.str(&x.oracle);
        h.str(&x.site);
    }
    h.str(&v.extra_out.to_string());
    h.0
}

/// `args` = [prop, tier, start, stride, base_seed, count]: prints "index fingerprint" lines
pub fn run_traces(args: &[String], draw: &dyn Fn(&str, u64, &str) -> Case, exec: &dyn Fn(&Case) -> Verdict, cleanup: &dyn Fn()) -> i32 {
    let prop = &args[0];
    let tier = &args[1];
    let start: u64 = args[2].parse().unwrap();
    let n: u64 = args[3].parse().unwrap();
    let base: u64 = args[4].parse().unwrap();
    let count: u64 = args[5].parse().unwrap();
    let mut i = start;
    let mut out = String::new();
    while i < count {
        let seed = case_seed(base, prop, i);
        let case = draw(prop, seed, tier);
        let v = exec(&case);
        out.push_str(&format!("{} {:016x}\n", i, fingerprint(&v)));
        i += n;
    }
    cleanup();
    print!("{}", out);
    0
}
