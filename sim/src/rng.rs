//! The one PRNG. Everything seeded derives from here; no external RNG crate.

pub fn splitmix64(state: &mut u64) -> u64 {
    *state = state.wrapping_add(0x9E37_79B9_7F4A_7C15);
    let mut z = *state;
    z = (z ^ (z >> 30)).wrapping_mul(0xBF58_476D_1CE4_E5B9);
    z = (z ^ (z >> 27)).wrapping_mul(0x94D0_49BB_1331_11EB);
    z ^ (z >> 31)
}

pub fn mix(a: u64, b: u64) -> u64 {
    let mut s = a ^ b.rotate_left(32) ^ 0xD6E8_FEB8_6659_FD93;
    splitmix64(&mut s)
}

#[derive(Clone, Debug)]
pub struct Rng {
    s: [u64; 4],
}

impl Rng {
    pub fn new(seed: u64) -> Rng {
        let mut st = seed;
        Rng { s: [splitmix64(&mut st), splitmix64(&mut st), splitmix64(&mut st), splitmix64(&mut st)] }
    }
    pub fn next(&mut self) -> u64 {
        let r = self.s[1].wrapping_mul(5).rotate_left(7).wrapping_mul(9);
        let t = self.s[1] << 17;
        self.s[2] ^= self.s[0];
        self.s[3] ^= self.s[1];
        self.s[1] ^= self.s[2];
        self.s[0] ^= self.s[3];
        self.s[2] ^= t;
        self.s[3] = self.s[3].rotate_left(45);
        r
    }
    /// uniform in [0, n)
    pub fn below(&mut self, n: u64) -> u64 {
        if n == 0 {
            return 0;
        }
        self.next() % n
    }
    pub fn range(&mut self, lo: u64, hi_incl: u64) -> u64 {
        lo + self.below(hi_incl - lo + 1)
    }
    pub fn chance(&mut self, num: u64, den: u64) -> bool {
        self.below(den) < num
    }
    pub fn pick<'a, T>(&mut self, v: &'a [T]) -> &'a T {
        &v[self.below(v.len() as u64) as usize]
    }
    /// weighted index
    pub fn weighted(&mut self, w: &[u32]) -> usize {
        let total: u64 = w.iter().map(|x| *x as u64).sum();
        if total == 0 {
            return 0;
        }
        let mut r = self.below(total);
        for (i, x) in w.iter().enumerate() {
            if r < *x as u64 {
                return i;
            }
            r -= *x as u64;
        }
        w.len() - 1
    }
}

/// FNV-1a 64 for trace hashing (deterministic, no std RandomState)
#[derive(Clone, Copy)]
pub struct Fnv(pub u64);
impl Default for Fnv {
    fn default() -> Self {
        Fnv(0xcbf2_9ce4_8422_2325)
    }
}
impl Fnv {
    pub fn write(&mut self, b: &[u8]) {
        for x in b {
            self.0 ^= *x as u64;
            self.0 = self.0.wrapping_mul(0x0000_0100_0000_01B3);
        }
    }
    pub fn u64(&mut self, v: u64) {
        self.write(&v.to_le_bytes())
    }
    pub fn str(&mut self, s: &str) {
        self.write(s.as_bytes());
        self.write(&[0xff]);
    }
}
