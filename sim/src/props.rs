//! Per-property configuration of the engines, and `execute`: run one Case on a fresh OS
//! thread (so that std's per-thread hash keys are a function of the case's seed only).
use crate::case::{Case, Verdict};
use crate::gen::{Gen, GenCfg};
use crate::rng::{mix, Rng};
use crate::seq::{Engine, EngineCfg, Source};
use crate::simos;
use bumpalo::Bump;

pub const ALL: &[&str] = &["C01", "C02", "C03", "C04", "C05", "C06", "C07", "C08", "C09", "C10", "C11", "C12", "C13", "C15", "C16"];


/// Oracles whose failure the property's check reports.
pub fn oracles(prop: &str) -> Vec<&'static str> {
    match prop {
        "C01" | "C16" => vec!["result", "panic", "contents", "fsck-logical", "scan", "open"],
        "C05" => vec!["fsck", "dbcheck"],
        "C06" => vec!["drop-trace", "err-trace", "ro-write", "ro-kind", "accounting"],
        "C07" => vec!["sweep", "result", "scan", "seek", "range", "filter", "cursor-panic", "panic"],
        "C08" => vec!["scan", "seek", "range", "filter", "cursor-panic"],
        "C03" => vec!["snapshot"],
        _ => vec![],
    }
}

pub fn scratch_root() -> String {
    format!("/dev/shm/jammdb-verif.{}", std::process::id())
}

/// Draw the per-run configuration of a generated case (swarm): recorded in the Case so that a
/// replay does not depend on this function.
pub fn draw_case(prop: &str, engine: &str, seed: u64, tier: &str) -> Case {
    if engine == "shuttle" {
        return sh_draw(prop, seed, tier).unwrap_or_else(|| Case::new(prop, engine, seed));
    }
    let mut r = Rng::new(mix(seed, 0xC0F1));
    let mut c = Case::new(prop, engine, seed);
    // mostly small power-of-two pages (deep trees with few keys); one run in eight uses a legal
    // page size that is not a power of two
    c.pagesize = *r.pick(&[1024, 1024, 1024, 1024, 2048, 4096, 1024, 1032]);
    if tier == "thorough" && r.chance(1, 12) {
        c.pagesize = *r.pick(&[1032, 3000, 5000, 16384]);
    }
    c.num_pages = *r.pick(&[4, 8, 32, 32, 64]);
    c.handle_cache = r.chance(1, 2);
    c.via_iter = r.chance(1, 4);
    c.strict = r.chance(1, 8);
    match prop {
        "C07" => {
            c.sweep = true;
            c.probe = r.chance(1, 4);
        }
        "C08" => c.probe = true,
        _ => {}
    }
    if tier == "thorough" {
        c.extra = serde_json::json!({"thorough": true});
    }
    if prop == "C12" {
        // commit counts 0..6, one in four on a legacy-header file; small pages in quick
        let n = r.below(7);
        let legacy = r.chance(1, 4);
        c.extra = serde_json::json!({"commits": n, "legacy": legacy, "upgrade": legacy && r.chance(1, 2), "empty_last": r.chance(1, 4), "thorough": tier == "thorough"});
        c.pagesize = if tier == "thorough" { *r.pick(&[1024, 1024, 2048, 4096]) } else { 1024 };
        c.strict = false;
    }
    c
}

pub fn gen_for(prop: &str, case: &Case) -> Gen {
    let mut g = Gen::new(case.seed, case.pagesize);
    tune(prop, &mut g.cfg, case.seed);
    g
}

fn tune(prop: &str, cfg: &mut GenCfg, seed: u64) {
    let mut r = Rng::new(mix(seed, 0x7E57));
    // rare and expensive: one transaction with more than 2^16 entries in one bucket
    cfg.giant_tx = prop == "C01" && seed % 1024 == 5;
    if matches!(prop, "C01" | "C05" | "C15") {
        // now and then one commit adds more than a whole growth step (8 MiB)
        cfg.huge_value = seed % 16 == 0;
    }
    // the legacy (0.10) header format is a starting state like any other: in some runs the
    // file is re-stamped in it at a reopen and the history goes on
    cfg.legacy_restamp = match prop {
        "C02" | "C11" => seed % 3 == 1,
        "C01" | "C05" | "C06" | "C16" => seed % 8 == 3,
        _ => false,
    };
    if cfg.legacy_restamp {
        cfg.p_reopen = cfg.p_reopen.max(20);
    }
    match prop {
        "C05" => {
            // one run in four keeps read-only transactions open across commits: pages stay
            // pending for several generations, and the accounting must still be exact
            if seed % 4 == 0 {
                cfg.readers = true;
                cfg.max_readers = r.range(1, 3) as u32;
                cfg.p_reopen = 0;
            }
            // biased to bucket deletion at several depths, splits and merges
            cfg.max_depth = cfg.max_depth.max(2);
            cfg.w_op[7] = cfg.w_op[7].max(5);
            cfg.w_op[4] = cfg.w_op[4].max(4);
            cfg.w_op[5] = cfg.w_op[5].max(4);
            cfg.p_shape = cfg.p_shape.max(50);
        }
        "C06" => {
            // one run in three keeps readers open across commits and rollbacks
            if r.chance(1, 3) {
                cfg.readers = true;
                cfg.max_readers = r.range(1, 3) as u32;
                cfg.p_reopen = 0;
            }
            cfg.damage_on_reopen = true;
            cfg.p_drop = *r.pick(&[30, 50, 70]);
            cfg.p_ro = *r.pick(&[10, 25]);
            cfg.ro_mutators = true;
            cfg.p_bad = cfg.p_bad.max(10);
            cfg.w_op[7] = cfg.w_op[7].max(4);
        }
        "C07" => {
            cfg.txs = cfg.txs.min(6);
            cfg.tx_len.1 = cfg.tx_len.1.min(25);
            cfg.bulk_len.1 = cfg.bulk_len.1.min(80);
            cfg.p_shape = cfg.p_shape.max(50);
            cfg.p_ro = 0;
        }
        "C08" => {
            cfg.txs = cfg.txs.min(6);
            cfg.bulk_len.1 = cfg.bulk_len.1.min(150);
            for i in [9usize, 10, 11, 12, 13] {
                cfg.w_op[i] = cfg.w_op[i].max(3);
            }
        }
        "C02" => {
            // small and large transactions, bucket deletes, growth, page reuse
            cfg.txs = cfg.txs.clamp(3, 8);
            cfg.p_reopen = cfg.p_reopen.min(20);
            cfg.w_op[7] = cfg.w_op[7].max(3);
            cfg.bulk_len.1 = cfg.bulk_len.1.min(150);
            cfg.p_ro = 0;
        }
        "C11" => {
            cfg.txs = cfg.txs.clamp(2, 6);
            cfg.p_reopen = cfg.p_reopen.min(20);
            cfg.bulk_len.1 = cfg.bulk_len.1.min(100);
            cfg.tx_len.1 = cfg.tx_len.1.min(20);
            cfg.p_ro = 0;
        }
        "C03" => {
            cfg.readers = true;
            cfg.max_readers = r.range(1, 4) as u32;
            cfg.p_reopen = 0;
            cfg.delete_heavy = true;
            cfg.w_op[1] = cfg.w_op[1].max(20);
            cfg.w_op[7] = cfg.w_op[7].max(3);
            cfg.txs = cfg.txs.max(6);
            cfg.bulk_len.1 = cfg.bulk_len.1.min(120);
        }
        _ => {}
    }
}

pub fn engine_cfg(case: &Case, path: &str) -> EngineCfg {
    let mut e = EngineCfg::new(path, case.pagesize);
    case.apply(&mut e);
    e.oracles = oracles(&case.property);
    if case.property == "C01" && case.seed % 1024 == 5 {
        e.max_steps = 90_000;
    }
    match case.property.as_str() {
        "C05" => {
            e.db_check = true;
            e.verify_commit = false;
            if case.seed % 4 == 0 {
                // readers are held on the committing thread: leave room so that growth (which
                // would self-deadlock, see C03) is rarely needed
                e.num_pages = e.num_pages.max(4096);
            }
        }
        "C06" => {
            e.c06 = true;
            e.fsck_fail = false;
            // reopening with other options must not touch an existing file
            e.reopen_np_factor = if case.seed % 2 == 0 { 4 } else { 1 };
            // readers may be held across commits: leave room so that growth is rarely needed
            e.num_pages = e.num_pages.max(4096);
        }
        // the differential run must do exactly the same reads inside the surviving
        // transactions (in-transaction reads legitimately change which pages a commit rewrites)
        "C06-diff" => {
            e.c06 = true;
            e.fsck_fail = false;
            e.reopen_np_factor = if case.seed % 2 == 0 { 4 } else { 1 };
            e.num_pages = e.num_pages.max(4096);
        }
        "C16" => e.reopen_np_cycle = Some(case.seed),
        "C03" => {
            // a reader and a growing writer on one thread self-deadlock by construction
            // (documented misuse): start large enough that no commit extends the file
            e.num_pages = (8 * 1024 * 1024 / case.pagesize) as usize;
        }
        _ => {}
    }
    e
}

/// Run `f` on a fresh OS thread with a big stack; SimOS is reset for it.
pub fn on_fresh_thread<R: Send + 'static>(hash_seed: u64, dir: String, f: impl FnOnce() -> R + Send + 'static) -> Result<R, String> {
    let h = std::thread::Builder::new()
        .stack_size(256 << 20)
        .spawn(move || {
            simos::reset(&dir, hash_seed);
            f()
        })
        .map_err(|e| format!("spawn: {}", e))?;
    h.join().map_err(|_| "run thread panicked (harness error)".to_string())
}

pub fn fresh_dir(tag: &str) -> String {
    let d = format!("{}/{}", scratch_root(), tag);
    simos::bypass(|| {
        let _ = std::fs::remove_dir_all(&d);
        std::fs::create_dir_all(&d).expect("scratch dir");
    });
    d
}

pub fn execute(case: &Case) -> Verdict {
    match case.engine.as_str() {
        "seq" => exec_seq(case),
        "crash" => crate::crash::execute(case),
        "fault" => crate::fault::execute(case),
        "corrupt" => crate::corrupt::execute(case),
        "long" => crate::long::execute(case),
        "cfg" => crate::cfg::execute(case),
        "compat" => crate::compat::execute(case),
        "shuttle" => match sh_child("oneshot", case) {
            Ok(o) => crate::worker::verdict_from(&o),
            Err(e) if e.contains("signal") => Verdict {
                violation: Some(crate::seq::Violation {
                    oracle: "process-died".into(),
                    site: "child".into(),
                    detail: format!("executing the run killed its process: {}", e),
                    step: 0,
                    in_rw_tx: false,
                }),
                ..Default::default()
            },
            Err(e) => Verdict { harness_error: Some(e), ..Default::default() },
        },
        other => Verdict { harness_error: Some(format!("unknown engine {}", other)), ..Default::default() },
    }
}

/// C06 (c): later commits behave exactly as if the abandoned transactions had never existed.
/// The history is run again with every dropped write transaction and every read-only
/// transaction removed; logical contents must agree at every commit, and so must the
/// high-water mark and the number of free pages as long as only single pages were allocated
/// (with multi-page runs the order siblings are written in, which follows hash order, can
/// legitimately change where runs fit).
fn c06_differential(case: &Case, first: &Verdict, commits: &[crate::seq::CommitRec]) -> Option<crate::seq::Violation> {
    use crate::step::Step;
    let mut kept: Vec<Step> = Vec::new();
    let mut block: Vec<Step> = Vec::new();
    let mut in_tx: Option<bool> = None;
    let mut removed = 0;
    for s in &first.issued {
        match (in_tx, s) {
            (None, Step::Begin { rw }) => {
                in_tx = Some(*rw);
                block = vec![s.clone()];
            }
            (None, _) => kept.push(s.clone()),
            (Some(rw), Step::Commit) => {
                block.push(s.clone());
                if rw {
                    kept.append(&mut block);
                } else {
                    kept.extend(block.drain(..).filter(|x| matches!(x, Step::OpenReader | Step::CloseReader { .. })));
                    removed += 1;
                }
                block.clear();
                in_tx = None;
            }
            (Some(_), Step::Drop) => {
                // readers opened or closed while the abandoned transaction was open are
                // transactions of their own: they stay in the history
                kept.extend(block.drain(..).filter(|x| matches!(x, Step::OpenReader | Step::CloseReader { .. })));
                removed += 1;
                in_tx = None;
            }
            (Some(_), Step::Reopen) => {
                kept.extend(block.drain(..).filter(|x| matches!(x, Step::OpenReader | Step::CloseReader { .. })));
                removed += 1;
                in_tx = None;
                kept.push(s.clone());
            }
            (Some(_), _) => block.push(s.clone()),
        }
    }
    if removed == 0 {
        return None;
    }
    let mut c2 = case.clone();
    c2.steps = Some(kept);
    c2.property = "C06-diff".into();
    let (_, commits2) = exec_seq_full(&c2);
    if commits2.len() != commits.len() {
        // the shortened history did not reach the same number of commits (a failing call in it
        // is some other oracle's business): nothing to compare
        return None;
    }
    let mut single_pages_only = true;
    for (a, b) in commits.iter().zip(commits2.iter()) {
        if a.contents_digest != b.contents_digest {
            return Some(crate::seq::Violation {
                oracle: "accounting".into(),
                site: "contents".into(),
                detail: format!("commit {} leaves different contents when the {} abandoned transaction(s) before it are removed from the history", a.n, removed),
                step: 0,
                in_rw_tx: false,
            });
        }
        if a.overflow > 0 || b.overflow > 0 {
            single_pages_only = false;
        }
        if single_pages_only && (a.hwm != b.hwm || a.free != b.free) {
            return Some(crate::seq::Violation {
                oracle: "accounting".into(),
                site: "pages".into(),
                detail: format!(
                    "after commit {} the file has high-water mark {} and {} free pages, but {} and {} when the {} abandoned transaction(s) are removed from the history",
                    a.n, a.hwm, a.free, b.hwm, b.free, removed
                ),
                step: 0,
                in_rw_tx: false,
            });
        }
    }
    None
}

pub fn exec_seq(case: &Case) -> Verdict {
    let (mut v, commits) = exec_seq_full(case);
    if case.property == "C06" && v.violation.is_none() && v.aborted.is_none() && v.harness_error.is_none() && v.stats.probes.get("strict_commit_refused_on_damaged_page").is_none() {
        if let Some(x) = c06_differential(case, &v, &commits) {
            v.violation = Some(x);
        }
        *v.counters.entry("differential_runs".into()).or_default() += 1;
    }
    v
}

pub fn exec_seq_full(case: &Case) -> (Verdict, Vec<crate::seq::CommitRec>) {
    let case = case.clone();
    let dir = fresh_dir("seq");
    let dir2 = dir.clone();
    let r = on_fresh_thread(case.seed, dir.clone(), move || {
        let path = format!("{}/db", dir2);
        let arena = Bump::new();
        let src = match &case.steps {
            Some(s) => Source::List(s.iter().cloned().collect()),
            None => Source::Gen(Box::new(gen_for(&case.property, &case))),
        };
        let ecfg = engine_cfg(&case, &path);
        let out = Engine::new(ecfg, src, &arena).run();
        let commits = out.commits.clone();
        if std::env::var("JSIM_DEBUG").is_ok() {
            eprintln!("api-trace={:016x} log-hash={:016x} calls={} getrandom={}", out.trace, simos::log_hash(), simos::total_calls(), simos::getrandom_calls());
            if std::env::var("JSIM_DEBUG").unwrap() == "log" {
                for e in simos::log_slice(0) {
                    match e {
                        simos::Ev::Write { off, data, .. } => eprintln!("W {} {} {:?}", off, data.len(), &data[..data.len().min(32)]),
                        other => eprintln!("{:?}", other),
                    }
                }
            }
        }
        let mut v = Verdict {
            violation: out.violation,
            aborted: out.aborted,
            skipped: out.skipped,
            // every API outcome and every SimOS event including the bytes written
            trace: crate::rng::mix(out.trace, simos::log_hash()),
            api_trace: out.trace,
            issued: out.issued,
            stats: out.stats,
            sim_events: simos::total_calls(),
            ..Default::default()
        };
        if let Err(e) = simos::shadow_matches(&path) {
            v.harness_error = Some(format!("SimOS shadow differs from the real file: {}", e));
        }
        if let Some(h) = crate::seq::HARNESS_FAULT.with(|p| p.borrow_mut().take()) {
            v.harness_error = Some(format!("the harness itself panicked: {}", h));
        }
        if simos::writable_maps() > 0 {
            v.harness_error = Some("a writable shared mapping was created: stores through it bypass the seam".into());
        }
        (v, commits)
    });
    match r {
        Ok(v) => v,
        Err(e) => (Verdict { harness_error: Some(e), ..Default::default() }, Vec::new()),
    }
}

pub fn sh_exe() -> String {
    std::env::var("JSIM_SH").unwrap_or_else(|_| {
        let root = std::env::var("VERIF_ROOT").unwrap_or_else(|_| "/verif".to_string());
        format!("{}/sim-sh/target/release/jsim-sh", root)
    })
}

/// Run the shuttle-side binary on a case (JSON on stdin), returning its JSON answer.
pub fn sh_child(cmd: &str, case: &Case) -> Result<serde_json::Value, String> {
    use std::io::Write;
    use std::process::{Command, Stdio};
    let mut ch = Command::new(sh_exe())
        .arg(cmd)
        .stdin(Stdio::piped())
        .stdout(Stdio::piped())
        .stderr(Stdio::null())
        .spawn()
        .map_err(|e| format!("spawn {}: {}", sh_exe(), e))?;
    {
        let mut si = ch.stdin.take().unwrap();
        let _ = si.write_all(serde_json::to_string(&case.to_json()).unwrap().as_bytes());
    }
    let out = ch.wait_with_output().map_err(|e| format!("wait: {}", e))?;
    if !out.status.success() {
        return Err(format!("jsim-sh {} ended with {:?}", cmd, out.status));
    }
    serde_json::from_slice(&out.stdout).map_err(|e| format!("jsim-sh output: {}", e))
}

pub fn sh_draw(prop: &str, seed: u64, tier: &str) -> Option<Case> {
    let out = std::process::Command::new(sh_exe()).args(["draw", prop, &seed.to_string(), tier]).output().ok()?;
    Case::from_json(&serde_json::from_slice(&out.stdout).ok()?)
}
