//! SEQ engine: drives the public API of jammdb (real code, through SimOS) against the
//! reference model, one step at a time, on one thread.
use crate::fsck::{self, Shape};
use crate::gen::{Gen, GenCtx};
use crate::model::{diff, hex, Entry, Item, MBucket, Path, EK};
use crate::rng::Fnv;
use crate::simos::{self, Marker};
use crate::step::{Blob, BoundKind, Step, Via};
use bumpalo::Bump;
use jammdb::{Bucket, Data, OpenOptions, ToBuckets, ToKVPairs, Tx, DB};
use std::cell::RefCell;
use std::collections::{BTreeMap, HashMap, VecDeque};
use std::ops::Bound;
use std::panic::{catch_unwind, AssertUnwindSafe};
use std::sync::Arc as Rc;

thread_local! {
    pub static LAST_PANIC: RefCell<Option<String>> = const { RefCell::new(None) };
    static IN_CATCH: std::cell::Cell<u32> = const { std::cell::Cell::new(0) };
    /// a panic raised by the harness's own code (location under src/), never a finding
    pub static HARNESS_FAULT: RefCell<Option<String>> = const { RefCell::new(None) };
}

/// With JSIM_STEPLOG=<file> every step is appended to that file before it is executed, so
/// that the history of a run that kills its process is known to the parent (isolate.rs).
pub fn steplog(line: impl FnOnce() -> String) {
    steplog_to("JSIM_STEPLOG", line)
}

pub fn steplog_to(var: &'static str, line: impl FnOnce() -> String) {
    use std::io::Write;
    use std::sync::Mutex;
    static FILES: Mutex<Vec<(&'static str, Option<std::fs::File>)>> = Mutex::new(Vec::new());
    simos::bypass(|| {
        let mut g = FILES.lock().unwrap_or_else(|e| e.into_inner());
        if !g.iter().any(|(v, _)| *v == var) {
            let f = std::env::var(var).ok().and_then(|p| std::fs::OpenOptions::new().create(true).append(true).open(p).ok());
            g.push((var, f));
        }
        if let Some((_, Some(f))) = g.iter_mut().find(|(v, _)| *v == var) {
            let _ = writeln!(f, "{}", line());
        }
    });
}

pub fn install_panic_hook() {
    std::panic::set_hook(Box::new(|info| {
        let msg = format!("{}", info);
        if std::env::var_os("JSIM_VERBOSE_PANICS").is_some() {
            // an isolated child (isolate.rs): if the process is about to abort (misaligned
            // dereference, panic while panicking, ...) these are its last words
            eprintln!("PANIC: {}", msg.replace('\n', " "));
        }
        if IN_CATCH.with(|c| c.get()) == 0 {
            // a panic outside a guarded API call is a harness error: say so loudly
            eprintln!("HARNESS PANIC: {}", msg);
        }
        let own = info.location().map(|l| l.file().starts_with("src/")).unwrap_or(false);
        if own {
            HARNESS_FAULT.with(|p| {
                if p.borrow().is_none() {
                    *p.borrow_mut() = Some(msg.clone())
                }
            });
        }
        LAST_PANIC.with(|p| *p.borrow_mut() = Some(msg));
    }));
}

/// Run `f`, turning a panic into Err(normalised message: file and text, no line numbers).
pub fn catch<R>(f: impl FnOnce() -> R) -> Result<R, String> {
    LAST_PANIC.with(|p| *p.borrow_mut() = None);
    IN_CATCH.with(|c| c.set(c.get() + 1));
    let r = catch_unwind(AssertUnwindSafe(f));
    IN_CATCH.with(|c| c.set(c.get() - 1));
    match r {
        Ok(r) => Ok(r),
        Err(_) => {
            let m = LAST_PANIC.with(|p| p.borrow_mut().take()).unwrap_or_else(|| "panic".into());
            Err(normalise_panic(&m))
        }
    }
}

pub fn normalise_panic(m: &str) -> String {
    // "panicked at src/cursor.rs:184:34:\nattempt to subtract with overflow"
    let mut out = String::new();
    let m = m.replace('\n', " ");
    let mut rest = m.as_str();
    if let Some(i) = rest.find("panicked at ") {
        rest = &rest[i + 12..];
    }
    // strip :line:col after the file name
    if let Some(i) = rest.find(".rs:") {
        out.push_str(&rest[..i + 3]);
        let tail = &rest[i + 4..];
        let j = tail.find(|c: char| !(c.is_ascii_digit() || c == ':')).unwrap_or(tail.len());
        out.push(' ');
        out.push_str(tail[j..].trim());
    } else {
        out.push_str(rest);
    }
    // numbers inside messages vary with page ids; keep them out of the site
    let out: String = out.chars().map(|c| if c.is_ascii_digit() { '#' } else { c }).collect();
    let mut squeezed = String::new();
    for c in out.chars() {
        if c == '#' && squeezed.ends_with('#') {
            continue;
        }
        squeezed.push(c);
    }
    if squeezed.len() > 160 {
        squeezed.truncate(160);
    }
    squeezed
}

#[derive(Clone, Debug)]
pub struct EngineCfg {
    pub path: String,
    pub pagesize: u64,
    pub num_pages: usize,
    pub strict: bool,
    pub populate: bool,
    pub handle_cache: bool,
    /// obtain bucket handles from the `buckets()` iterators instead of `get_bucket`
    pub via_iter: bool,
    pub verify_commit: bool,
    pub fsck_commit: bool,
    /// false: structural complaints of the file checker are recorded in the commit record but do
    /// not end the run (checks whose own oracle needs the later history, e.g. C06's differential)
    pub fsck_fail: bool,
    pub db_check: bool,
    pub sweep: bool,
    pub probe: bool,
    pub c06: bool,
    pub keep_models: bool,
    pub stop_after_commit: Option<u32>,
    /// FAULT engine: arm this plan for commit number `.0`; `.2` = Some(true) commit must
    /// succeed (benign fault), Some(false) must fail, None either
    pub fault: Option<(u32, Vec<simos::Fault>, Option<bool>)>,
    /// further faulted commits after the first (adjacent-commit pairs); a plan that does not
    /// fire leaves its commit an ordinary one
    pub more_faults: Vec<(u32, Vec<simos::Fault>)>,
    pub record_calls: bool,
    pub final_reopen_verify: bool,
    /// every reopen asks for this many times the initial page count (must have no effect)
    pub reopen_np_factor: usize,
    /// C16: every reopen asks for another initial page count of the option set (which the
    /// documentation says has no effect on an existing database)
    pub reopen_np_cycle: Option<u64>,
    opens: u64,
    /// reported oracle ids; a failure of any other oracle ends the run quietly
    pub oracles: Vec<&'static str>,
    pub max_steps: usize,
}

impl EngineCfg {
    pub fn new(path: &str, pagesize: u64) -> EngineCfg {
        EngineCfg {
            path: path.to_string(),
            pagesize,
            num_pages: 32,
            strict: false,
            populate: false,
            handle_cache: false,
            via_iter: false,
            verify_commit: true,
            fsck_commit: true,
            fsck_fail: true,
            db_check: false,
            sweep: false,
            probe: false,
            c06: false,
            keep_models: false,
            stop_after_commit: None,
            fault: None,
            more_faults: Vec::new(),
            record_calls: false,
            final_reopen_verify: false,
            reopen_np_factor: 1,
            reopen_np_cycle: None,
            opens: 0,
            oracles: vec![],
            max_steps: 20_000,
        }
    }
}

#[derive(Clone, Debug, PartialEq, Eq)]
pub struct Violation {
    pub oracle: String,
    pub site: String,
    pub detail: String,
    pub step: usize,
    pub in_rw_tx: bool,
}

#[derive(Clone, Debug)]
pub struct CommitRec {
    pub n: u32,
    pub ok: bool,
    pub log_call: usize,
    pub log_ret: usize,
    pub pre: Rc<MBucket>,
    pub post: Rc<MBucket>,
    pub hwm: u64,
    pub free: u64,
    pub live: u64,
    pub file_len: u64,
    pub overflow: u64,
    pub contents_digest: u64,
    pub grew: bool,
    pub calls: Vec<simos::Call>,
}

#[derive(Clone, Debug, Default)]
pub struct Stats {
    pub steps: u64,
    pub ops: BTreeMap<String, u64>,
    pub probes: BTreeMap<&'static str, u64>,
    pub shape_sigs: Vec<u64>,
    pub commits: u64,
    pub drops: u64,
    pub reopens: u64,
    pub probe_inputs: u64,
    pub reader_checks: u64,
}

impl Stats {
    pub fn probe(&mut self, name: &'static str) {
        *self.probes.entry(name).or_default() += 1;
    }
    pub fn probe_n(&mut self, name: &'static str, n: u64) {
        *self.probes.entry(name).or_default() += n;
    }
}

#[derive(Clone, Debug, Default)]
pub struct Outcome {
    pub violation: Option<Violation>,
    /// an oracle outside the reported set failed: the run ended early, nothing is claimed
    pub aborted: Option<Violation>,
    pub skipped: Option<String>,
    pub trace: u64,
    pub issued: Vec<Step>,
    pub commits: Vec<CommitRec>,
    pub stats: Stats,
    pub final_model: MBucket,
    /// strict-mode commits that were refused because of injected damage (C06 probe)
    pub refused_commits: u32,
}

pub enum Source {
    Gen(Box<Gen>),
    List(VecDeque<Step>),
}

#[derive(Clone, Debug, PartialEq, Eq)]
pub enum Obs {
    Unit,
    Err(EK),
    OtherErr(String),
    Item(Option<Item>),
    Int(u64),
    List(Vec<Item>),
    Seek { found: bool, current: Option<Item>, rest: Vec<Item>, after_end: u32 },
    Panic(String),
    Skipped,
}

fn item_str(i: &Item) -> String {
    match &i.1 {
        Some(v) => format!("{}={}B:{}", hex(&i.0), v.len(), hex(&v[..v.len().min(6)])),
        None => format!("{}=<bucket>", hex(&i.0)),
    }
}

pub fn obs_str(o: &Obs) -> String {
    match o {
        Obs::Unit => "Ok".into(),
        Obs::Err(e) => format!("Err({})", e.name()),
        Obs::OtherErr(s) => format!("Err({})", s),
        Obs::Item(None) => "None".into(),
        Obs::Item(Some(i)) => format!("Some({})", item_str(i)),
        Obs::Int(n) => format!("{}", n),
        Obs::List(v) => {
            let s: Vec<String> = v.iter().take(12).map(item_str).collect();
            format!("[{} items: {}{}]", v.len(), s.join(", "), if v.len() > 12 { ", .." } else { "" })
        }
        Obs::Seek { found, current, rest, after_end } => format!(
            "seek(found={}, current={}, rest={}, after_end={})",
            found,
            current.as_ref().map(item_str).unwrap_or_else(|| "None".into()),
            obs_str(&Obs::List(rest.clone())),
            after_end
        ),
        Obs::Panic(s) => format!("PANIC({})", s),
        Obs::Skipped => "skipped".into(),
    }
}

fn hash_obs(h: &mut Fnv, o: &Obs, step: &Step) {
    // which neighbour a seek for an absent key lands on depends on leaf boundaries, i.e. on
    // the page size: keep it out of the transcript (the per-call oracle still judges it)
    if let (Obs::Seek { found: false, rest, after_end, .. }, Step::Seek { key, take, .. }) = (o, step) {
        let k = key.bytes();
        // drop the predecessor if iteration started there, and compare the same number of
        // successors whichever neighbour it started at
        let mut norm: Vec<Item> = rest.iter().filter(|i| i.0 >= k).cloned().collect();
        norm.truncate((*take as usize).saturating_sub(1));
        h.str(&format!("seek-absent after_end={}", after_end));
        hash_obs(h, &Obs::List(norm), &Step::Check);
        return;
    }
    h.str(&obs_str(o));
    if let Obs::List(v) = o {
        for i in v {
            h.write(&i.0);
            if let Some(x) = &i.1 {
                h.write(x);
            }
        }
    }
}

fn data_item(d: &Data) -> Item {
    match d {
        Data::Bucket(b) => (b.name().to_vec(), None),
        Data::KeyValue(kv) => (kv.key().to_vec(), Some(kv.value().to_vec())),
    }
}

const ITER_CAP: usize = 200_000;

thread_local! {
    /// total number of entries one walk may visit (garbage pages reached through a damaged
    /// image can describe astronomically large trees)
    static WALK_BUDGET: std::cell::Cell<usize> = const { std::cell::Cell::new(0) };
}

pub fn set_walk_budget(n: usize) {
    WALK_BUDGET.with(|b| b.set(n));
}

fn spend() -> bool {
    WALK_BUDGET.with(|b| {
        let v = b.get();
        if v == 0 {
            false
        } else {
            b.set(v - 1);
            true
        }
    })
}

/// Read a whole bucket through the cursor API, recursively, plus cross-checks between the
/// different read routes. Returns the contents as seen through `cursor`, and a list of
/// inconsistencies between routes.
pub fn walk_bucket(b: &Bucket, depth: u32, incons: &mut Vec<String>) -> MBucket {
    let mut out = MBucket { next_int: b.next_int(), entries: Default::default() };
    let mut prev: Option<Vec<u8>> = None;
    let mut n = 0usize;
    let mut names = Vec::new();
    let mut kvs = Vec::new();
    for d in b.cursor() {
        n += 1;
        if n > ITER_CAP || !spend() {
            incons.push("cursor does not terminate (iteration budget exhausted)".into());
            return out;
        }
        let k = d.key().to_vec();
        if let Some(p) = &prev {
            if *p >= k {
                incons.push(format!("cursor not strictly ascending: {} then {}", hex(p), hex(&k)));
            }
        }
        prev = Some(k.clone());
        match &d {
            Data::KeyValue(kv) => {
                kvs.push((k.clone(), kv.value().to_vec()));
                out.entries.insert(k, Entry::Kv(kv.value().to_vec()));
            }
            Data::Bucket(bn) => {
                names.push(k.clone());
                if depth > 40 {
                    incons.push("nesting deeper than 40".into());
                    continue;
                }
                match b.get_bucket(bn) {
                    Ok(sub) => {
                        let m = walk_bucket(&sub, depth + 1, incons);
                        out.entries.insert(k, Entry::Sub(m));
                    }
                    Err(e) => incons.push(format!("get_bucket({}) listed by cursor fails: {}", hex(&k), e)),
                }
            }
        }
    }
    // point lookups agree with the scan
    for (k, e) in &out.entries {
        match (b.get(k), e) {
            (Some(Data::KeyValue(kv)), Entry::Kv(v)) => {
                if kv.value() != v.as_slice() || kv.key() != k.as_slice() {
                    incons.push(format!("get({}) differs from the cursor's value", hex(k)));
                }
            }
            (Some(Data::Bucket(bn)), Entry::Sub(_)) => {
                if bn.name() != k.as_slice() {
                    incons.push(format!("get({}) returns bucket named {}", hex(k), hex(bn.name())));
                }
            }
            (None, _) => incons.push(format!("get({}) is None but the cursor lists it", hex(k))),
            _ => incons.push(format!("get({}) kind differs from the cursor's", hex(k))),
        }
    }
    let kp: Vec<(Vec<u8>, Vec<u8>)> = b.kv_pairs().take(ITER_CAP).map(|kv| (kv.key().to_vec(), kv.value().to_vec())).collect();
    if kp != kvs {
        incons.push(format!("kv_pairs yields {} pairs, cursor {}", kp.len(), kvs.len()));
    }
    let bn: Vec<Vec<u8>> = b.buckets().take(ITER_CAP).map(|(n, _)| n.name().to_vec()).collect();
    if bn != names {
        incons.push(format!("buckets yields {} names, cursor {}", bn.len(), names.len()));
    }
    out
}

pub fn walk_tx(tx: &Tx, incons: &mut Vec<String>) -> MBucket {
    if WALK_BUDGET.with(|b| b.get()) == 0 {
        set_walk_budget(2_000_000);
    }
    let out = walk_tx_inner(tx, incons);
    set_walk_budget(0);
    out
}

fn walk_tx_inner(tx: &Tx, incons: &mut Vec<String>) -> MBucket {
    let mut out = MBucket::default();
    let mut prev: Option<Vec<u8>> = None;
    let mut n = 0;
    for (name, b) in tx.buckets() {
        n += 1;
        if n > ITER_CAP || !spend() {
            incons.push("root bucket listing does not terminate (iteration budget exhausted)".into());
            return out;
        }
        let k = name.name().to_vec();
        if let Some(p) = &prev {
            if *p >= k {
                incons.push(format!("root listing not strictly ascending: {} then {}", hex(p), hex(&k)));
            }
        }
        prev = Some(k.clone());
        let m = walk_bucket(&b, 1, incons);
        out.entries.insert(k, Entry::Sub(m));
    }
    // every listed bucket can also be fetched by name
    for k in out.entries.keys() {
        if let Err(e) = tx.get_bucket(k.clone()) {
            incons.push(format!("tx.get_bucket({}) fails: {}", hex(k), e));
        }
    }
    out
}

enum TxEnd {
    Normal,
    Reopen,
    Stop,
}

pub struct Engine<'a> {
    pub cfg: EngineCfg,
    src: Source,
    arena: &'a Bump,
    committed: MBucket,
    shape: Option<Shape>,
    pub out: Outcome,
    trace: Fnv,
    commit_no: u32,
    last_file_len: u64,
    stop: bool,
    fault_done: bool,
    pub fault_outcome: Option<String>,
    opened_once: bool,
    pending_damage: Option<u8>,
    pending_restamp: bool,
    /// bucket paths the running write transaction has operated on (any operation)
    touched_now: Vec<Path>,
    touched_overflow: bool,
}

type Cache<'b, 'tx> = HashMap<Path, Bucket<'b, 'tx>>;
type Readers<'tx> = Vec<(Tx<'tx>, Rc<MBucket>, u32)>;

impl<'a> Engine<'a> {
    pub fn new(cfg: EngineCfg, src: Source, arena: &'a Bump) -> Engine<'a> {
        Engine {
            cfg,
            src,
            arena,
            committed: MBucket::default(),
            shape: None,
            out: Outcome::default(),
            trace: Fnv::default(),
            commit_no: 0,
            last_file_len: 0,
            stop: false,
            fault_done: false,
            fault_outcome: None,
            opened_once: false,
            pending_damage: None,
            pending_restamp: false,
            touched_now: Vec::new(),
            touched_overflow: false,
        }
    }

    /// Start from an existing file whose logical contents are `model`.
    pub fn with_initial(mut self, model: MBucket) -> Self {
        self.committed = model;
        self
    }

    fn fail(&mut self, oracle: &str, site: &str, detail: String, in_rw: bool) {
        if self.stop {
            return;
        }
        let (oracle, site) = if self.fault_done && !oracle.starts_with("fault-") {
            // anything that goes wrong after an injected I/O error belongs to C11
            ("fault-aftermath".to_string(), format!("{} @ {}", oracle, site))
        } else {
            (oracle.to_string(), site.to_string())
        };
        let (oracle, site) = (oracle.as_str(), site.as_str());
        let v = Violation {
            oracle: oracle.to_string(),
            site: site.to_string(),
            detail,
            step: self.out.issued.len().saturating_sub(1),
            in_rw_tx: in_rw,
        };
        if self.cfg.oracles.iter().any(|o| *o == oracle) {
            self.out.violation = Some(v);
        } else {
            self.out.aborted = Some(v);
        }
        self.stop = true;
    }

    fn next_step(&mut self, view: &MBucket, tx: Option<bool>, n_readers: usize) -> Option<Step> {
        if self.stop || self.out.issued.len() >= self.cfg.max_steps {
            return None;
        }
        let s = match &mut self.src {
            Source::List(l) => l.pop_front(),
            Source::Gen(g) => {
                let ctx = GenCtx { committed: &self.committed, view, tx, shape: self.shape.as_ref(), n_readers };
                g.next(&ctx)
            }
        }?;
        self.out.issued.push(s.clone());
        steplog(|| s.to_json().to_string());
        self.out.stats.steps += 1;
        *self.out.stats.ops.entry(s.name().to_string()).or_default() += 1;
        Some(s)
    }

    fn open(&mut self) -> Option<DB> {
        let existed = simos::bypass(|| std::path::Path::new(&self.cfg.path).exists());
        if std::mem::take(&mut self.pending_restamp) && existed {
            self.restamp_legacy();
        }
        if let (Some(kind), true) = (self.pending_damage.take(), existed) {
            self.damage_older_header(kind);
        }
        let before = simos::log_len();
        simos::mark(Marker::OpenCall);
        let mut np = if self.opened_once { self.cfg.num_pages * self.cfg.reopen_np_factor.max(1) } else { self.cfg.num_pages };
        if let (true, Some(c)) = (self.opened_once, self.cfg.reopen_np_cycle) {
            np = [4usize, 32, 1000][((c % 3) + self.cfg.opens) as usize % 3];
        }
        self.cfg.opens += 1;
        self.opened_once = true;
        let (ps, strict, pop) = (self.cfg.pagesize, self.cfg.strict, self.cfg.populate);
        let path = self.cfg.path.clone();
        let r = catch(|| OpenOptions::new().pagesize(ps).num_pages(np).strict_mode(strict).mmap_populate(pop).open(&path));
        match r {
            Ok(Ok(db)) => {
                simos::mark(Marker::OpenReturn { ok: true });
                if existed && self.cfg.c06 {
                    // opening an existing database must not change the file
                    let m = simos::mutations_since(before);
                    if m > 0 {
                        self.fail("ro-write", "open", format!("opening an existing file (asking for {} initial pages) issued {} write/extend/sync call(s)", np, m), false);
                    }
                }
                Some(db)
            }
            Ok(Err(e)) => {
                simos::mark(Marker::OpenReturn { ok: false });
                self.fail("open", "open", format!("open returned {}", e), false);
                None
            }
            Err(p) => {
                simos::mark(Marker::OpenReturn { ok: false });
                self.fail("panic", &format!("open: {}", p), format!("open panicked: {}", p), false);
                None
            }
        }
    }

    /// Both headers are rewritten in the legacy format (same fields, SHA3-256 checksum): from
    /// here on the history runs on a file "written by release 0.10".
    fn restamp_legacy(&mut self) {
        let ps = self.cfg.pagesize as usize;
        let (buf, _) = match simos::file_view_prefix(&self.cfg.path, 2 * ps) {
            Some(v) => v,
            None => return,
        };
        if buf.len() < 2 * ps {
            return;
        }
        let mut done = 0;
        for slot in 0..2u64 {
            if let Some(h) = fsck::valid_header(&buf, slot, self.cfg.pagesize, false) {
                let base = slot as usize * ps;
                let mut page = buf[base..base + ps].to_vec();
                for b in page[fsck::REC_OFF..fsck::REC_OFF + fsck::REC_LEN_OLD].iter_mut() {
                    *b = 0;
                }
                fsck::write_header(&mut page, &h, true);
                if simos::foreign_write(&self.cfg.path, base as u64, &page[..fsck::REC_OFF + fsck::REC_LEN_OLD]) {
                    done += 1;
                }
            }
        }
        if done > 0 {
            self.out.stats.probe("headers_restamped_in_legacy_format");
        }
    }

    /// A leaf page (two or more elements) of a bucket that the running transaction cannot have
    /// rewritten: not the root level, and no touched path is a prefix of it or below it.
    fn pick_live_damage(&self) -> Option<(u64, u8, u8)> {
        let sh = self.shape.as_ref()?;
        for b in &sh.buckets {
            if b.path.is_empty() {
                continue;
            }
            let related = self.touched_now.iter().any(|t| t.len() <= b.path.len() && b.path[..t.len()] == t[..] || b.path.len() <= t.len() && t[..b.path.len()] == b.path[..]);
            if related || self.touched_overflow {
                continue;
            }
            if let Some((off, first, second)) = b.first_key_at.first() {
                if second > first || (second == first && *first < 0xff) {
                    return Some((*off, *first, 0xff));
                }
            }
        }
        None
    }

    /// Damage the header page that is not the current one (the other one stays intact, so the
    /// committed state is unchanged and the model needs no adjustment).
    fn damage_older_header(&mut self, kind: u8) {
        let ps = self.cfg.pagesize as usize;
        let (buf, _) = match simos::file_view_prefix(&self.cfg.path, 2 * ps) {
            Some(v) => v,
            None => return,
        };
        if buf.len() < 2 * ps {
            return;
        }
        let cur = match fsck::choose_header(&buf, self.cfg.pagesize) {
            Some(h) => h.slot as usize,
            None => return,
        };
        let older = 1 - cur.min(1);
        let base = (older * ps) as u64;
        let page = &buf[older * ps..(older + 1) * ps];
        let done = match kind % 5 {
            // the first sector is lost
            0 => simos::damage(&self.cfg.path, base, &vec![0u8; 512.min(ps)]),
            // the page-type byte
            // (increments, not flips: damaging the same slot twice must not heal it)
            1 => simos::damage(&self.cfg.path, base + 8, &[page[8].wrapping_add(4)]),
            // one byte of the record (transaction id)
            2 => simos::damage(&self.cfg.path, base + 32 + 56, &[page[32 + 56].wrapping_add(1)]),
            // the whole page
            3 => simos::damage(&self.cfg.path, base, &vec![0u8; ps]),
            // the checksum
            _ => simos::damage(&self.cfg.path, base + 32 + 64, &[page[32 + 64].wrapping_add(0x81)]),
        };
        if done {
            self.out.stats.probe("older_header_damaged_before_open");
        }
    }

    pub fn run(mut self) -> Outcome {
        steplog(|| "#run".to_string());
        loop {
            let db = match self.open() {
                Some(db) => db,
                None => break,
            };
            if self.stop {
                break;
            }
            let mut readers: Readers = Vec::new();
            let reopen = self.session(&db, &mut readers);
            drop(readers);
            drop(db);
            simos::mark(Marker::DbClose);
            if !reopen || self.stop {
                break;
            }
            self.out.stats.reopens += 1;
            // after a clean close and reopen the committed state must read back
            if self.cfg.verify_commit {
                if let Some(db) = self.open() {
                    self.verify_committed(&db, "reopen");
                    drop(db);
                    simos::mark(Marker::DbClose);
                }
            }
            if self.stop {
                break;
            }
        }
        if self.cfg.final_reopen_verify && !self.stop {
            if let Some(db) = self.open() {
                self.verify_committed(&db, "final reopen");
                drop(db);
                simos::mark(Marker::DbClose);
                if !self.stop {
                    self.fsck_now("final reopen");
                }
            }
        }
        self.out.trace = self.trace.0;
        self.out.final_model = self.committed.clone();
        if let Source::Gen(g) = &self.src {
            for (k, v) in &g.macros_used {
                *self.out.stats.probes.entry(k).or_default() += *v;
            }
        }
        self.out
    }

    fn verify_readers(&mut self, readers: &Readers, site: &str) {
        for (tx, snap, age) in readers.iter() {
            if self.stop {
                return;
            }
            self.out.stats.reader_checks += 1;
            let mut incons = Vec::new();
            let got = catch(|| walk_tx(tx, &mut incons));
            match got {
                Err(p) => self.fail("snapshot", site, format!("reader opened at commit {} panicked while reading: {}", age, p), false),
                Ok(m) => {
                    if let Some(d) = diff(&m, snap, false) {
                        self.fail(
                            "snapshot",
                            site,
                            format!("reader opened at commit {} no longer sees its snapshot (now at commit {}): {}", age, self.commit_no, d),
                            false,
                        );
                    } else if let Some(i) = incons.first() {
                        self.fail("snapshot", site, format!("reader opened at commit {}: {}", age, i), false);
                    }
                }
            }
        }
    }

    /// returns true if a reopen was requested
    fn session<'tx>(&mut self, db: &'tx DB, readers: &mut Readers<'tx>) -> bool
    where
        'a: 'tx,
    {
        loop {
            let view = self.committed.clone();
            let step = match self.next_step(&view, None, readers.len()) {
                Some(s) => s,
                None => return false,
            };
            match step {
                Step::Begin { rw } => match self.run_tx(db, rw, readers) {
                    TxEnd::Normal => {}
                    TxEnd::Reopen => return true,
                    TxEnd::Stop => return false,
                },
                Step::Reopen => return true,
                Step::OpenReader => self.open_reader(db, readers),
                Step::CloseReader { idx } => self.close_reader(readers, idx),
                Step::Check => self.check_now(db),
                Step::DamageOlderHeader { kind } => self.pending_damage = Some(kind),
                Step::RestampLegacy => self.pending_restamp = true,
                _ => {}
            }
            if !readers.is_empty() {
                self.verify_readers(readers, "between transactions");
            }
            if let Some(n) = self.cfg.stop_after_commit {
                if self.commit_no >= n {
                    return false;
                }
            }
        }
    }

    fn open_reader<'tx>(&mut self, db: &'tx DB, readers: &mut Readers<'tx>) {
        match catch(|| db.tx(false)) {
            Ok(Ok(tx)) => {
                let ages: std::collections::BTreeSet<u32> = readers.iter().map(|r| r.2).collect();
                readers.push((tx, Rc::new(self.committed.clone()), self.commit_no));
                let mut a2 = ages.clone();
                a2.insert(self.commit_no);
                if a2.len() >= 3 {
                    self.out.stats.probe("readers_of_3_ages");
                }
                self.out.stats.probe("reader_opened");
            }
            Ok(Err(e)) => self.fail("snapshot", "open_reader", format!("tx(false) returned {}", e), false),
            Err(p) => self.fail("panic", &format!("tx(false): {}", p), p, false),
        }
    }

    fn close_reader(&mut self, readers: &mut Readers, idx: u32) {
        if readers.is_empty() {
            return;
        }
        let i = idx as usize % readers.len();
        let oldest = readers.iter().map(|r| r.2).min().unwrap();
        if readers[i].2 != oldest {
            self.out.stats.probe("reader_closed_out_of_order");
        } else {
            self.out.stats.probe("oldest_reader_closed");
        }
        let r = readers.remove(i);
        if let Err(p) = catch(move || drop(r)) {
            self.fail("panic", &format!("drop(reader): {}", p), p, false);
        }
    }

    fn check_now(&mut self, db: &DB) {
        match catch(|| db.check()) {
            Ok(Ok(())) => {}
            Ok(Err(e)) => self.fail("dbcheck", "check", format!("DB::check reports {}", e), false),
            Err(p) => self.fail("dbcheck", "check", format!("DB::check panicked: {}", p), false),
        }
    }

    /// Full comparison of a fresh read-only transaction with the committed model.
    fn verify_committed(&mut self, db: &DB, site: &str) {
        self.verify_committed_as(db, site, "contents")
    }

    fn verify_committed_as(&mut self, db: &DB, site: &str, oracle: &str) {
        let r = catch(|| -> Result<(MBucket, Vec<String>), String> {
            let tx = db.tx(false).map_err(|e| format!("tx(false): {}", e))?;
            let mut incons = Vec::new();
            let m = walk_tx(&tx, &mut incons);
            Ok((m, incons))
        });
        match r {
            Err(p) => self.fail("panic", &format!("read after {}: {}", site, p), format!("reading back after {} panicked: {}", site, p), false),
            Ok(Err(e)) => self.fail(oracle, site, e, false),
            Ok(Ok((m, incons))) => {
                if let Some(d) = diff(&m, &self.committed, false) {
                    self.fail(oracle, site, format!("fresh transaction after {} differs from the model (left = database): {}", site, d), false);
                } else if let Some(i) = incons.first() {
                    self.fail(oracle, site, format!("after {}: {}", site, i), false);
                }
            }
        }
    }

    fn fsck_now(&mut self, site: &str) -> Option<fsck::Report> {
        let (buf, len) = simos::file_view(&self.cfg.path)?;
        let mut buf = buf;
        // pad to the logical length the checker needs (sparse tail reads as zeros)
        if let Some(h) = fsck::choose_header(&buf, self.cfg.pagesize) {
            let need = (h.num_pages.saturating_mul(self.cfg.pagesize)).min(len) as usize;
            if buf.len() < need {
                buf.resize(need, 0);
            }
        }
        match fsck::check(&buf, len, self.cfg.pagesize) {
            Err(e) => {
                self.fail("fsck", site, format!("file does not parse: {}", e), false);
                None
            }
            Ok(rep) => {
                if let (Some(e), true) = (rep.errors.first(), self.cfg.fsck_fail) {
                    self.fail("fsck", site, format!("{} (+{} more)", e, rep.errors.len() - 1), false);
                }
                Some(rep)
            }
        }
    }

    fn run_tx<'tx>(&mut self, db: &'tx DB, rw: bool, readers: &mut Readers<'tx>) -> TxEnd
    where
        'a: 'tx,
    {
        let log0 = simos::log_len();
        let tx = match catch(|| db.tx(rw)) {
            Ok(Ok(tx)) => tx,
            Ok(Err(e)) => {
                self.fail("result", "tx", format!("tx({}) returned {}", rw, e), rw);
                return TxEnd::Stop;
            }
            Err(p) => {
                self.fail("panic", &format!("tx: {}", p), p, rw);
                return TxEnd::Stop;
            }
        };
        simos::mark(Marker::TxBegin { rw });
        let mut view = self.committed.clone();
        let mut cache: Cache = HashMap::new();
        let mut end = TxEnd::Normal;
        let mut mutated = false;
        let mut n_mut = 0u32;
        let mut touched: std::collections::BTreeSet<Path> = Default::default();
        self.touched_now.clear();
        // handles taken from iterators open every sibling on the way: nothing is "untouched" then
        self.touched_overflow = self.cfg.via_iter;
        loop {
            let step = match self.next_step(&view, Some(rw), readers.len()) {
                Some(s) => s,
                None => break,
            };
            if let Some(p) = step.path() {
                if p.is_empty() || matches!(step, Step::Buckets { .. } | Step::Scan { .. } | Step::Seek { .. } | Step::Range { .. } | Step::KvPairs { .. }) {
                    // root-level calls and iterations may open buckets this list does not name
                    if matches!(step, Step::Buckets { .. }) || p.is_empty() && !matches!(step, Step::CreateBucket { .. } | Step::GetOrCreate { .. } | Step::GetBucket { .. } | Step::DeleteBucket { .. }) {
                        self.touched_overflow = true;
                    }
                }
                let mut full = p.clone();
                if let Some((_, name)) = step.target() {
                    if matches!(step, Step::CreateBucket { .. } | Step::GetOrCreate { .. } | Step::DeleteBucket { .. }) {
                        full.push(name.bytes());
                    }
                }
                if let Step::GetBucket { name, .. } = &step {
                    full.push(name.bytes());
                }
                if self.touched_now.len() < 64 {
                    if !self.touched_now.contains(&full) {
                        self.touched_now.push(full);
                    }
                } else {
                    self.touched_overflow = true;
                }
            }
            match &step {
                Step::Commit => {
                    if self.cfg.probe && rw && mutated {
                        for p in touched.iter().take(3) {
                            self.probe_bucket(&tx, &view, p, true);
                        }
                        if self.stop {
                            break;
                        }
                    }
                    drop(cache);
                    self.do_commit(db, tx, rw, view, log0, readers);
                    return if self.stop { TxEnd::Stop } else { TxEnd::Normal };
                }
                Step::Drop => break,
                Step::Reopen => {
                    end = TxEnd::Reopen;
                    break;
                }
                Step::Begin { .. } | Step::Check | Step::DamageOlderHeader { .. } | Step::RestampLegacy => continue,
                Step::OpenReader => {
                    self.open_reader(db, readers);
                }
                Step::CloseReader { idx } => self.close_reader(readers, *idx),
                _ => {
                    let before = if self.cfg.c06 { Some(view.clone()) } else { None };
                    // read-modify-write bracket (sweep mode): a point lookup of the very key a
                    // mutator aims at, immediately before and immediately after it, so that
                    // whatever a lookup leaves behind (a position, a memo) meets the mutation
                    let bracket: Option<Step> = match step.target() {
                        Some((p, k)) if self.cfg.sweep && rw && step.is_mutator() && !p.is_empty() => Some(Step::Get { path: p.clone(), key: k.clone() }),
                        _ => None,
                    };
                    if let Some(g) = &bracket {
                        let (got, exp) = self.exec(&tx, &mut cache, &mut view, g, rw);
                        hash_obs(&mut self.trace, &got, g);
                        self.judge(g, &got, &exp, rw);
                        if self.stop {
                            break;
                        }
                    }
                    let (got, exp) = self.exec(&tx, &mut cache, &mut view, &step, rw);
                    hash_obs(&mut self.trace, &got, &step);
                    self.judge(&step, &got, &exp, rw);
                    if let (Some(Step::Get { path, key }), false) = (&bracket, self.stop) {
                        for g in [Step::Get { path: path.clone(), key: key.clone() }, Step::GetKv { path: path.clone(), key: key.clone() }] {
                            let (got, exp) = self.exec(&tx, &mut cache, &mut view, &g, rw);
                            hash_obs(&mut self.trace, &got, &g);
                            self.judge(&g, &got, &exp, rw);
                            if self.stop {
                                break;
                            }
                        }
                        self.out.stats.probe("rmw_brackets");
                    }
                    if step.is_mutator() && rw {
                        mutated = true;
                        if let Some(p) = step.path() {
                            if !p.is_empty() && touched.len() < 8 {
                                touched.insert(p.clone());
                            }
                        }
                    }
                    if self.stop {
                        break;
                    }
                    if let (Some(b), Obs::Err(_)) = (before, &got) {
                        // a call that returned an error changed nothing
                        if b != view {
                            self.fail("err-trace", step.name(), "model changed on error (harness bug)".into(), rw);
                        }
                        self.sweep(&tx, &view, "err-trace", &format!("after failed {}", step.name()), rw);
                    } else if self.cfg.sweep && rw && step.is_mutator() {
                        self.sweep(&tx, &view, "sweep", &format!("after {}", step.name()), rw);
                    }
                    if step.is_mutator() && rw {
                        n_mut += 1;
                    }
                    // mid-transaction probing is costly: every 8th mutator (and before commit)
                    if self.cfg.probe && rw && step.is_mutator() && !self.stop && n_mut % 8 == 1 {
                        if let Some(p) = step.path() {
                            let p = p.clone();
                            self.probe_bucket(&tx, &view, &p, true);
                        }
                    }
                }
            }
            if self.stop {
                break;
            }
            if !readers.is_empty() {
                self.verify_readers(readers, "inside a transaction");
            }
        }
        drop(cache);
        // rollback (or read-only transaction end)
        let r = catch(move || drop(tx));
        simos::mark(Marker::TxDrop);
        if let Err(p) = r {
            self.fail("panic", &format!("drop(tx): {}", p), p, rw);
        }
        if rw {
            self.out.stats.drops += 1;
            if mutated {
                self.out.stats.probe("rollback_of_modified_tx");
            }
        }
        if self.cfg.c06 && !self.stop {
            let m = simos::mutations_since(log0);
            if m > 0 {
                let what = if rw { "a dropped write transaction" } else { "a read-only transaction" };
                self.fail(
                    if rw { "drop-trace" } else { "ro-write" },
                    "drop",
                    format!("{} issued {} write/extend/sync call(s)", what, m),
                    rw,
                );
            }
            if rw && !self.stop {
                self.verify_committed_as(db, "rollback", "drop-trace");
            }
        }
        if self.stop {
            TxEnd::Stop
        } else {
            end
        }
    }

    fn sweep(&mut self, tx: &Tx, view: &MBucket, oracle: &str, site: &str, rw: bool) {
        if self.stop {
            return;
        }
        // the walk opens every bucket inside this transaction
        self.touched_overflow = true;
        let mut incons = Vec::new();
        match catch(|| walk_tx(tx, &mut incons)) {
            Err(p) => self.fail(oracle, site, format!("reading inside the transaction panicked: {}", p), rw),
            Ok(m) => {
                if let Some(d) = diff(&m, view, false) {
                    self.fail(oracle, site, format!("transaction view differs from model (left = database): {}", d), rw);
                } else if let Some(i) = incons.first() {
                    self.fail(oracle, site, i.clone(), rw);
                }
            }
        }
    }

    #[allow(clippy::too_many_arguments)]
    fn do_commit<'tx>(&mut self, db: &'tx DB, tx: Tx<'tx>, rw: bool, view: MBucket, _log0: usize, readers: &mut Readers<'tx>) {
        if !rw {
            // commit on a read-only transaction must fail with the read-only error
            let r = catch(move || tx.commit());
            match r {
                Ok(Err(e)) if EK::of(&e) == EK::ReadOnlyTx => {}
                Ok(Ok(())) => self.fail("ro-kind", "commit", "commit of a read-only transaction returned Ok".into(), false),
                Ok(Err(e)) => self.fail("ro-kind", "commit", format!("commit of a read-only transaction returned {}", e), false),
                Err(p) => self.fail("panic", &format!("commit(ro): {}", p), p, false),
            }
            simos::mark(Marker::TxDrop);
            return;
        }
        self.commit_no += 1;
        let n = self.commit_no;
        let log_call = simos::log_len();
        simos::mark(Marker::CommitCall { n });
        let mut faulted = self.cfg.fault.clone().filter(|f| f.0 == n);
        let mut secondary = false;
        if faulted.is_none() {
            if let Some(m) = self.cfg.more_faults.iter().find(|m| m.0 == n) {
                faulted = Some((m.0, m.1.clone(), None));
                secondary = true;
            }
        }
        let fired_before = simos::fired().len();
        let blocked_before = simos::growth_blocked();
        simos::set_growth_block(!readers.is_empty());
        if let Some(f) = &faulted {
            simos::arm(f.1.clone());
        } else if self.cfg.record_calls {
            simos::arm(vec![]);
        }
        // strict-refusal probe (C06, strict mode): one byte of a live leaf page of a bucket this
        // transaction did not touch is damaged behind the code's back for the duration of the
        // commit (first key made greater than the second). If the built-in check notices and the
        // commit is refused, "a call that returns an error changes nothing" must hold.
        let live_damage = if self.cfg.c06 && self.cfg.strict && faulted.is_none() && readers.is_empty() && n % 3 == 0 { self.pick_live_damage() } else { None };
        if let Some((off, _orig, bad)) = live_damage {
            simos::damage(&self.cfg.path, off, &[bad]);
        }
        let r = catch(move || tx.commit());
        if let Some((off, orig, _)) = live_damage {
            simos::damage(&self.cfg.path, off, &[orig]);
            if matches!(&r, Ok(Err(e)) if EK::of(e) == EK::InvalidDB) {
                simos::mark(Marker::CommitReturn { n, ok: false });
                self.commit_no -= 1;
                self.out.stats.probe("strict_commit_refused_on_damaged_page");
                self.out.refused_commits += 1;
                self.verify_committed_as(db, "refused commit", "err-trace");
                return;
            }
        }
        let commit_calls = if faulted.is_some() || self.cfg.record_calls { simos::disarm().1 } else { Vec::new() };
        simos::set_growth_block(false);
        let ok = matches!(r, Ok(Ok(())));
        simos::mark(Marker::CommitReturn { n, ok });
        let log_ret = simos::log_len();
        if simos::growth_blocked() > blocked_before {
            // this commit needed to grow the file while this thread holds a reader: the library
            // documents that as a self-deadlock, so the run ends here without a verdict
            self.out.skipped = Some("a commit had to grow the file while a reader was open on the same thread".into());
            self.stop = true;
            return;
        }
        if secondary && simos::fired().len() == fired_before {
            // the second plan did not fire (the first failure changed what this commit writes)
            faulted = None;
        }
        if let Some(f) = faulted {
            self.after_fault(db, f.2, r, view, fired_before);
            return;
        }
        match r {
            Ok(Ok(())) => {}
            Ok(Err(e)) => {
                self.trace.str("commit-err");
                self.fail("result", "commit", format!("commit returned {}", e), true);
                return;
            }
            Err(p) => {
                self.fail("panic", &format!("commit: {}", p), format!("commit panicked: {}", p), true);
                return;
            }
        }
        self.out.stats.commits += 1;
        // probe: did this commit reuse freed pages (write below the previous high-water mark),
        // and was a reader open while it did?
        if let Some(prev) = self.out.commits.last() {
            if prev.hwm > 0 {
                let ps = self.cfg.pagesize;
                let reused = simos::log_slice(log_call).iter().any(|e| matches!(e, simos::Ev::Write { off, .. } if *off / ps >= 2 && *off / ps < prev.hwm));
                if reused {
                    self.out.stats.probe("commit_reused_freed_pages");
                    if !readers.is_empty() {
                        self.out.stats.probe("pages_reused_while_a_reader_is_open");
                    }
                }
            }
        }
        let pre = Rc::new(std::mem::replace(&mut self.committed, view));
        let post = Rc::new(self.committed.clone());
        self.trace.str("commit");
        let mut rec = CommitRec {
            n,
            ok,
            log_call,
            log_ret,
            pre: if self.cfg.keep_models { pre } else { Rc::new(MBucket::default()) },
            post: if self.cfg.keep_models { post } else { Rc::new(MBucket::default()) },
            hwm: 0,
            free: 0,
            live: 0,
            file_len: 0,
            overflow: 0,
            contents_digest: 0,
            grew: false,
            calls: commit_calls,
        };
        if self.cfg.fsck_commit {
            if let Some(rep) = self.fsck_now("commit") {
                rec.hwm = rep.shape.hwm;
                rec.free = rep.shape.free;
                rec.live = rep.shape.live_pages;
                rec.file_len = rep.shape.file_len;
                rec.overflow = rep.shape.n_overflow_pages + rep.shape.freelist_run.saturating_sub(1);
                rec.grew = self.last_file_len != 0 && rep.shape.file_len > self.last_file_len;
                if rec.grew {
                    self.out.stats.probe("file_growth");
                }
                self.last_file_len = rep.shape.file_len;
                if !rep.errors.is_empty() {
                    let mut h = Fnv::default();
                    rep.contents.digest_into(&mut h, false);
                    h.str(&rep.errors[0]);
                    rec.contents_digest = h.0;
                }
                if rep.errors.is_empty() {
                    let mut h = Fnv::default();
                    rep.contents.digest_into(&mut h, false);
                    rec.contents_digest = h.0;
                    if let Some(d) = diff(&rep.contents, &self.committed, false) {
                        self.fail("fsck-logical", "commit", format!("contents parsed from the file differ from the model (left = file): {}", d), false);
                    }
                    let sh = &rep.shape;
                    self.out.stats.shape_sigs.push(sh.signature());
                    if sh.max_depth >= 2 {
                        self.out.stats.probe("depth>=2");
                    }
                    if sh.max_depth >= 3 {
                        self.out.stats.probe("depth>=3");
                    }
                    if sh.n_overflow_pages > 0 {
                        self.out.stats.probe("overflow_value");
                    }
                    if sh.free > 0 {
                        self.out.stats.probe("free_list_nonempty");
                    }
                    if let Some(old) = &self.shape {
                        if old.max_depth > sh.max_depth {
                            self.out.stats.probe("tree_got_shallower");
                        }
                        if old.n_leaf > sh.n_leaf {
                            self.out.stats.probe("leaf_count_shrank");
                        }
                        if old.n_leaf < sh.n_leaf && old.n_leaf > 0 {
                            self.out.stats.probe("leaf_count_grew");
                        }
                        if old.buckets.len() > sh.buckets.len() {
                            self.out.stats.probe("bucket_count_shrank");
                        }
                    }
                    if sh.buckets.iter().any(|b| b.path.len() >= 2) {
                        self.out.stats.probe("nesting>=2");
                    }
                    self.shape = Some(rep.shape);
                } else {
                    self.shape = None;
                }
            }
        }
        self.out.commits.push(rec);
        if self.stop {
            return;
        }
        if self.cfg.db_check {
            self.check_now(db);
        }
        if self.cfg.verify_commit && !self.stop {
            self.verify_committed(db, "commit");
        }
        if self.cfg.probe && !self.stop {
            let paths = self.committed.all_paths();
            match catch(|| db.tx(false)) {
                Ok(Ok(tx)) => {
                    let view = self.committed.clone();
                    for p in paths.iter().filter(|p| !p.is_empty()).take(3) {
                        self.probe_bucket(&tx, &view, p, false);
                        if self.stop {
                            break;
                        }
                    }
                }
                Ok(Err(e)) => self.fail("result", "tx", format!("tx(false) returned {}", e), false),
                Err(p) => self.fail("panic", &format!("tx: {}", p), p, false),
            }
        }
        let _ = readers;
    }

    /// C11: the commit ran with an injected I/O error. Judge what it returned and what state
    /// the database is in on the same handle, then let the history continue from that state.
    fn after_fault(&mut self, db: &DB, expect_ok: Option<bool>, r: Result<Result<(), jammdb::Error>, String>, view: MBucket, fired_before: usize) {
        let fired: Vec<_> = simos::fired().into_iter().skip(fired_before).collect();
        if fired.is_empty() {
            self.out.skipped = Some("the planned fault did not fire".into());
            self.stop = true;
            return;
        }
        let what = format!("{:?} on call #{} ({})", fired[0].2, fired[0].0, fired[0].1.name());
        let ok = match r {
            Err(p) => {
                self.fail("fault-panic", &format!("commit: {}", p), format!("commit panicked after {}: {}", what, p), true);
                return;
            }
            Ok(Ok(())) => true,
            Ok(Err(e)) => {
                if !matches!(EK::of(&e), EK::Io | EK::Sync | EK::InvalidDB | EK::Alloc) {
                    self.fail("fault-result", "commit", format!("commit returned {} after {}", e, what), true);
                    return;
                }
                false
            }
        };
        match expect_ok {
            Some(true) if !ok => {
                self.fail("fault-result", "commit", format!("commit failed although the fault is benign ({})", what), true);
                return;
            }
            Some(false) if ok => {
                self.fail("fault-result", "commit", format!("commit reported success although {} failed", what), true);
                return;
            }
            _ => {}
        }
        // same handle, fresh transaction: exactly the old or exactly the new state
        let walked = catch(|| -> Result<MBucket, String> {
            let tx = db.tx(false).map_err(|e| format!("tx(false): {}", e))?;
            let mut incons = Vec::new();
            let m = walk_tx(&tx, &mut incons);
            match incons.first() {
                Some(i) => Err(i.clone()),
                None => Ok(m),
            }
        });
        let got = match walked {
            Ok(Ok(m)) => m,
            Ok(Err(e)) => {
                self.fail("fault-state", "same handle", format!("after {}: {}", what, e), true);
                return;
            }
            Err(p) => {
                self.fail("fault-state", "same handle", format!("reading on the same handle after {} panicked: {}", what, p), true);
                return;
            }
        };
        let is_pre = diff(&got, &self.committed, false).is_none();
        let is_post = diff(&got, &view, false).is_none();
        if !is_pre && !is_post {
            let d1 = diff(&got, &self.committed, false).unwrap_or_default();
            let d2 = diff(&got, &view, false).unwrap_or_default();
            self.fail("fault-state", "same handle", format!("after {} the database shows neither the old nor the new state: vs old: {} | vs new: {}", what, d1, d2), true);
            return;
        }
        if ok && !is_post {
            self.fail("fault-state", "same handle", format!("commit returned Ok after {} but the old state is visible", what), true);
            return;
        }
        let post = is_post && (ok || !is_pre || diff(&self.committed, &view, false).is_some());
        self.fault_outcome = Some(format!("{}:{}:{}", what, if ok { "ok" } else { "err" }, if is_post { "post" } else { "pre" }));
        if post {
            self.committed = view;
            self.out.stats.probe("fault_left_new_state");
        } else {
            self.out.stats.probe("fault_left_old_state");
        }
        self.fault_done = true;
        if let Some(rep) = self.fsck_now("after fault") {
            if rep.errors.is_empty() {
                if let Some(d) = diff(&rep.contents, &self.committed, false) {
                    self.fail("fault-fsck", "after fault", format!("file contents differ from what the handle shows: {}", d), true);
                }
            }
        }
    }

    /// Resolve a bucket path to a handle, using (and filling) the handle cache when enabled.
    fn resolve<'b, 'tx>(
        &self,
        tx: &'b Tx<'tx>,
        cache: &mut Cache<'b, 'tx>,
        path: &Path,
    ) -> Result<Option<Bucket<'b, 'tx>>, jammdb::Error> {
        // returns Ok(None) when the handle sits in the cache under `path`
        if self.cfg.handle_cache && cache.contains_key(path) {
            return Ok(None);
        }
        // every route that hands out a bucket handle must hand out the same kind of handle:
        // by name, or from the iterator over sub-buckets (falling back to the by-name call
        // for the error when the iterator does not list it)
        let via_iter = self.cfg.via_iter;
        let first = if via_iter { tx.buckets().take(ITER_CAP).find(|(n, _)| n.name() == path[0].as_slice()).map(|(_, b)| b) } else { None };
        let mut cur: Bucket<'b, 'tx> = match first {
            Some(b) => b,
            None => match (via_of(&path[0]), String::from_utf8(path[0].clone())) {
                (Via::String, Ok(s)) => tx.get_bucket(s)?,
                _ => tx.get_bucket(path[0].clone())?,
            },
        };
        for name in &path[1..] {
            let found = if via_iter { cur.buckets().take(ITER_CAP).find(|(n, _)| n.name() == name.as_slice()).map(|(_, b)| b) } else { None };
            let next = match found {
                Some(b) => b,
                None => match (via_of(name), String::from_utf8(name.clone())) {
                    (Via::String, Ok(s)) => cur.get_bucket(s)?,
                    _ => cur.get_bucket(name.clone())?,
                },
            };
            cur = next;
        }
        if self.cfg.handle_cache {
            cache.insert(path.clone(), cur);
            return Ok(None);
        }
        Ok(Some(cur))
    }

    fn exec<'b, 'tx>(
        &mut self,
        tx: &'b Tx<'tx>,
        cache: &mut Cache<'b, 'tx>,
        view: &mut MBucket,
        step: &Step,
        rw: bool,
    ) -> (Obs, Obs)
    where
        'a: 'tx,
    {
        let path = match step.path() {
            Some(p) => p.clone(),
            None => return (Obs::Skipped, Obs::Skipped),
        };
        // ---- model side
        let exp = model_apply(view, step, rw);
        // ---- database side
        let arena = self.arena;
        let got = catch(|| -> Obs {
            if path.is_empty() {
                return exec_root(tx, step, arena);
            }
            let owned;
            let b: &Bucket<'b, 'tx> = match self.resolve(tx, cache, &path) {
                Err(e) => return Obs::Err(EK::of(&e)),
                Ok(Some(b)) => {
                    owned = b;
                    &owned
                }
                Ok(None) => cache.get(&path).unwrap(),
            };
            exec_bucket(b, step, arena)
        });
        let got = match got {
            Ok(o) => o,
            Err(p) => Obs::Panic(p),
        };
        // a deleted bucket invalidates every cached handle below it
        if let Step::DeleteBucket { path, name } = step {
            if matches!(got, Obs::Unit) {
                let mut full = path.clone();
                full.push(name.bytes());
                cache.retain(|k, _| !k.starts_with(&full));
            }
        }
        (got, exp)
    }

    fn judge(&mut self, step: &Step, got: &Obs, exp: &Obs, rw: bool) {
        if let Obs::Panic(p) = got {
            if matches!(exp, Obs::Panic(_)) {
                return;
            }
            self.fail("panic", &format!("{}: {}", step.name(), p), format!("{} panicked: {} (model expected {})", step.name(), p, obs_str(exp)), rw);
            return;
        }
        let oracle = match step {
            Step::Scan { .. } => "scan",
            Step::Seek { .. } => "seek",
            Step::Range { .. } => "range",
            Step::Buckets { .. } | Step::KvPairs { .. } => "filter",
            _ => "result",
        };
        // read-only error kind is C06's business too
        let ok = match (got, exp) {
            (Obs::Seek { found, current, rest, after_end }, Obs::Seek { found: ef, .. }) => {
                // exp.rest holds the full ordered listing; exp.current the probe key
                if let Obs::Seek { rest: all, current: Some((key, _)), .. } = exp {
                    seek_ok(*found, current, rest, *after_end, *ef, all, key, step)
                } else {
                    false
                }
            }
            _ => got == exp,
        };
        if !ok {
            let o = if !rw && step.is_mutator() { "ro-kind" } else { oracle };
            self.fail(o, step.name(), format!("{} returned {} but the model says {}", step.name(), obs_str(got), obs_str(exp)), rw);
        }
    }

    /// C08: enumerate seek keys and range bounds on one bucket.
    fn probe_bucket(&mut self, tx: &Tx, view: &MBucket, path: &Path, in_rw: bool) {
        if path.is_empty() {
            return;
        }
        self.touched_overflow = true;
        let mb = match view.resolve(path) {
            Ok(b) => b,
            Err(_) => return,
        };
        let items = mb.items();
        let keys: Vec<Vec<u8>> = items.iter().map(|i| i.0.clone()).collect();
        let mut p: Vec<Vec<u8>> = Vec::new();
        let step = (keys.len() / 10).max(1);
        for (i, k) in keys.iter().enumerate() {
            // every key on small buckets; a stride plus the ends on big ones
            if keys.len() > 14 && i % step != 0 && i != keys.len() - 1 && i != 1 {
                continue;
            }
            p.push(k.clone());
            let mut s = k.clone();
            s.push(0);
            p.push(s);
            let mut t = k.clone();
            if t.pop().is_some() {
                p.push(t);
            }
            let mut d = k.clone();
            if let Some(l) = d.last_mut() {
                if *l > 0 {
                    *l -= 1;
                    d.push(0xff);
                    p.push(d);
                }
            }
        }
        p.push(vec![]);
        p.push(vec![0xff; 4]);
        p.sort();
        p.dedup();
        let r = catch(|| -> Result<u64, (String, String)> {
            let b = {
                let mut cur = tx.get_bucket(path[0].clone()).map_err(|e| ("seek".to_string(), format!("get_bucket: {}", e)))?;
                for n in &path[1..] {
                    let nx = cur.get_bucket(n.clone()).map_err(|e| ("seek".to_string(), format!("get_bucket: {}", e)))?;
                    cur = nx;
                }
                cur
            };
            let mut inputs = 0u64;
            // seeks
            for (pi, k) in p.iter().enumerate() {
                inputs += 1;
                let mut c = b.cursor();
                if pi % 3 == 1 {
                    // a used (here: partly iterated or exhausted) cursor seeks like a fresh one
                    for _ in 0..(pi % 7) * 3 {
                        if c.next().is_none() {
                            break;
                        }
                    }
                }
                if pi % 3 == 2 {
                    // a cursor that was seeked elsewhere (anywhere in the tree) seeks like a fresh one
                    let other = &p[(pi * 7 + 3) % p.len()];
                    let _ = c.seek(other);
                    if pi % 2 == 0 {
                        let _ = c.next();
                    }
                }
                let found = c.seek(k);
                let current = c.current().map(|d| data_item(&d));
                let mut rest = Vec::new();
                for d in c.by_ref() {
                    rest.push(data_item(&d));
                    if rest.len() > items.len() + 8 {
                        break;
                    }
                }
                let mut after = 0;
                for _ in 0..3 {
                    if c.next().is_some() {
                        after += 1;
                    }
                }
                let ef = mb.entries.contains_key(k);
                let st = Step::Seek { path: path.clone(), key: Blob::Raw(k.clone()), take: u32::MAX, warm: 0 };
                if !seek_ok(found, &current, &rest, after, ef, &items, k, &st) {
                    return Err((
                        "seek".into(),
                        format!(
                            "seek({}) on a bucket of {} entries: found={} (model {}), current={}, then {} entries starting {}, {} after the end",
                            hex(k),
                            items.len(),
                            found,
                            ef,
                            current.as_ref().map(item_str).unwrap_or_else(|| "None".into()),
                            rest.len(),
                            rest.first().map(item_str).unwrap_or_else(|| "-".into()),
                            after
                        ),
                    ));
                }
            }
            // the cursor is an Iterator: whatever route advances it (nth, skip, step_by, count,
            // last, fold) must agree with stepping entry by entry
            {
                let n = items.len();
                let cap = n + 8;
                let mut ks: Vec<usize> = vec![0, 1, 2, n / 2, n.saturating_sub(1), n, n + 1];
                ks.extend((0..n).step_by((n / 6).max(1)));
                ks.sort();
                ks.dedup();
                for k in ks {
                    inputs += 1;
                    let got = b.cursor().nth(k).map(|d| data_item(&d));
                    if got.as_ref() != items.get(k) {
                        return Err(("scan".into(), format!("cursor().nth({}) on a bucket of {} entries yields {} but stepping yields {}", k, n,
                            got.as_ref().map(item_str).unwrap_or_else(|| "None".into()), items.get(k).map(item_str).unwrap_or_else(|| "None".into()))));
                    }
                    let got: Vec<Item> = b.cursor().skip(k).take(cap).map(|d| data_item(&d)).collect();
                    if got.as_slice() != &items[k.min(n)..] {
                        return Err(("scan".into(), format!("cursor().skip({}) on a bucket of {} entries yields {} entries instead of {}", k, n, got.len(), n - k.min(n))));
                    }
                    // nth on a cursor that has already yielded entries
                    let mut c = b.cursor();
                    let first = c.next().map(|d| data_item(&d));
                    let got = c.nth(k).map(|d| data_item(&d));
                    if first.as_ref() != items.first() || got.as_ref() != items.get(k + 1) {
                        return Err(("scan".into(), format!("next() then nth({}) on a bucket of {} entries yields {}", k, n, got.as_ref().map(item_str).unwrap_or_else(|| "None".into()))));
                    }
                    if k >= 1 && k <= 4 {
                        let got: Vec<Item> = b.cursor().step_by(k).take(cap).map(|d| data_item(&d)).collect();
                        let exp: Vec<Item> = items.iter().step_by(k).cloned().collect();
                        if got != exp {
                            return Err(("scan".into(), format!("cursor().step_by({}) on a bucket of {} entries yields {} entries instead of {}", k, n, got.len(), exp.len())));
                        }
                    }
                }
                let kvs: Vec<Item> = items.iter().filter(|i| i.1.is_some()).cloned().collect();
                let subs: Vec<Item> = items.iter().filter(|i| i.1.is_none()).cloned().collect();
                for k in [0usize, 1, kvs.len() / 2, kvs.len()] {
                    inputs += 1;
                    let got = b.kv_pairs().nth(k).map(|kv| (kv.key().to_vec(), Some(kv.value().to_vec())));
                    if got.as_ref() != kvs.get(k) {
                        return Err(("filter".into(), format!("kv_pairs().nth({}) on a bucket of {} pairs is wrong", k, kvs.len())));
                    }
                }
                for k in [0usize, 1, subs.len() / 2, subs.len()] {
                    inputs += 1;
                    let got = b.buckets().nth(k).map(|(nm, _)| (nm.name().to_vec(), None));
                    if got.as_ref() != subs.get(k) {
                        return Err(("filter".into(), format!("buckets().nth({}) on a bucket of {} nested buckets is wrong", k, subs.len())));
                    }
                }
                if n <= 2000 {
                    inputs += 1;
                    let cnt = b.cursor().count();
                    let last = b.cursor().last().map(|d| data_item(&d));
                    let folded = b.cursor().fold(0usize, |a, _| a + 1);
                    if cnt != n || folded != n || last.as_ref() != items.last() {
                        return Err(("scan".into(), format!("cursor().count() = {}, fold = {}, last = {} on a bucket of {} entries", cnt, folded, last.as_ref().map(item_str).unwrap_or_else(|| "None".into()), n)));
                    }
                    // a range with both bounds present behaves the same through adaptors
                    if n >= 3 {
                        let (lo, hi) = (&items[1].0, &items[n - 1].0);
                        let got: Vec<Item> = b.range((Bound::Included(lo.as_slice()), Bound::Excluded(hi.as_slice()))).skip(1).take(cap).map(|d| data_item(&d)).collect();
                        if got.as_slice() != &items[2..n - 1] {
                            return Err(("range".into(), format!("range(..).skip(1) on a bucket of {} entries yields {} entries instead of {}", n, got.len(), n - 3)));
                        }
                    }
                }
            }
            // ranges: all pairs when small, otherwise a deterministic stride
            let kinds = [BoundKind::Unbounded, BoundKind::Included, BoundKind::Excluded];
            let stride = (p.len() * p.len() / 64).max(1);
            let mut idx = 0usize;
            for lo in &p {
                for hi in &p {
                    idx += 1;
                    if idx % stride != 0 {
                        continue;
                    }
                    for lk in kinds {
                        for hk in kinds {
                            if (lk == BoundKind::Unbounded && lo != &p[0]) || (hk == BoundKind::Unbounded && hi != &p[0]) {
                                continue;
                            }
                            inputs += 1;
                            for filter in 0..3u8 {
                                let got = run_range(&b, lo, lk, hi, hk, filter, items.len() + 8);
                                let exp = model_range(&items, lo, lk, hi, hk, filter);
                                if got != exp {
                                    return Err((
                                        if filter == 0 { "range".into() } else { "filter".into() },
                                        format!(
                                            "range({:?} {}, {:?} {}) filter {} on a bucket of {} entries yields {} but the model says {}",
                                            lk,
                                            hex(lo),
                                            hk,
                                            hex(hi),
                                            filter,
                                            items.len(),
                                            obs_str(&Obs::List(got)),
                                            obs_str(&Obs::List(exp))
                                        ),
                                    ));
                                }
                            }
                        }
                    }
                }
            }
            Ok(inputs)
        });
        match r {
            Ok(Ok(n)) => {
                self.out.stats.probe_inputs += n;
                if items.is_empty() {
                    self.out.stats.probe("probe_empty_bucket");
                }
                if in_rw {
                    self.out.stats.probe("probe_mid_transaction");
                }
            }
            Ok(Err((oracle, d))) => self.fail(&oracle, "probe", d, in_rw),
            Err(pn) => self.fail("cursor-panic", &format!("probe: {}", pn), format!("cursor probing panicked: {}", pn), in_rw),
        }
    }
}

fn within(k: &[u8], lo: &[u8], lk: BoundKind, hi: &[u8], hk: BoundKind) -> bool {
    let a = match lk {
        BoundKind::Unbounded => true,
        BoundKind::Included => k >= lo,
        BoundKind::Excluded => k > lo,
    };
    let b = match hk {
        BoundKind::Unbounded => true,
        BoundKind::Included => k <= hi,
        BoundKind::Excluded => k < hi,
    };
    a && b
}

pub fn model_range(items: &[Item], lo: &[u8], lk: BoundKind, hi: &[u8], hk: BoundKind, filter: u8) -> Vec<Item> {
    items
        .iter()
        .filter(|i| within(&i.0, lo, lk, hi, hk))
        .filter(|i| match filter {
            1 => i.1.is_none(),
            2 => i.1.is_some(),
            _ => true,
        })
        .cloned()
        .collect()
}

fn bound<'x>(k: &'x [u8], kind: BoundKind) -> Bound<&'x [u8]> {
    match kind {
        BoundKind::Unbounded => Bound::Unbounded,
        BoundKind::Included => Bound::Included(k),
        BoundKind::Excluded => Bound::Excluded(k),
    }
}

fn run_range(b: &Bucket, lo: &[u8], lk: BoundKind, hi: &[u8], hk: BoundKind, filter: u8, cap: usize) -> Vec<Item> {
    let r = b.range((bound(lo, lk), bound(hi, hk)));
    match filter {
        1 => r.to_buckets().take(cap).map(|(n, _)| (n.name().to_vec(), None)).collect(),
        2 => r.to_kv_pairs().take(cap).map(|kv| (kv.key().to_vec(), Some(kv.value().to_vec()))).collect(),
        _ => r.take(cap).map(|d| data_item(&d)).collect(),
    }
}

/// The seek rule of C08: the flag equals membership; iteration starts at the key if present,
/// else at its immediate predecessor or successor; every later entry follows in order;
/// nothing comes after the end.
#[allow(clippy::too_many_arguments)]
fn seek_ok(found: bool, current: &Option<Item>, rest: &[Item], after_end: u32, exp_found: bool, all: &[Item], key: &[u8], step: &Step) -> bool {
    if found != exp_found || after_end != 0 {
        return false;
    }
    let take = match step {
        Step::Seek { take, .. } => *take as usize,
        _ => usize::MAX,
    };
    let succ = all.iter().position(|i| i.0.as_slice() >= key).unwrap_or(all.len());
    let mut starts = vec![succ];
    if !exp_found && succ > 0 {
        starts.push(succ - 1);
    }
    for s in starts {
        let want: Vec<&Item> = all[s..].iter().take(take).collect();
        let same = want.len() == rest.len() && want.iter().zip(rest.iter()).all(|(a, b)| *a == b);
        if same {
            // current() before the first next() is the entry iteration starts with
            let cur_ok = match (current, all.get(s)) {
                (Some(c), Some(w)) => c == w,
                (None, None) => true,
                // an absent key may leave the cursor on no entry (the statement speaks of
                // where *iteration* continues); a present key must be under the cursor
                (None, Some(_)) => !exp_found,
                (Some(_), None) => false,
            };
            if cur_ok {
                return true;
            }
        }
    }
    false
}

fn res_unit<T>(r: Result<T, jammdb::Error>) -> Obs {
    match r {
        Ok(_) => Obs::Unit,
        Err(e) => Obs::Err(EK::of(&e)),
    }
}

fn exec_root<'b, 'tx, 'a: 'tx>(tx: &'b Tx<'tx>, step: &Step, arena: &'a Bump) -> Obs {
    match step {
        Step::CreateBucket { name, via, .. } => with_key(name, *via, arena, |k| res_unit(match k {
            K::Vec(v) => tx.create_bucket(v),
            K::Slice(s) => tx.create_bucket(s),
            K::Bytes(b) => tx.create_bucket(b),
            K::Str(s) => tx.create_bucket(s),
            K::String(s) => tx.create_bucket(s),
        })),
        Step::GetOrCreate { name, via, .. } => with_key(name, *via, arena, |k| res_unit(match k {
            K::Vec(v) => tx.get_or_create_bucket(v),
            K::Slice(s) => tx.get_or_create_bucket(s),
            K::Bytes(b) => tx.get_or_create_bucket(b),
            K::Str(s) => tx.get_or_create_bucket(s),
            K::String(s) => tx.get_or_create_bucket(s),
        })),
        Step::GetBucket { name, .. } => with_key(name, via_of(&name.bytes()), arena, |k| res_unit(match k {
            K::Vec(v) => tx.get_bucket(v),
            K::Slice(s) => tx.get_bucket(s),
            K::Bytes(b) => tx.get_bucket(b),
            K::Str(s) => tx.get_bucket(s),
            K::String(s) => tx.get_bucket(s),
        })),
        Step::DeleteBucket { name, .. } => with_key(name, via_of(&name.bytes()), arena, |k| match k {
            K::Vec(v) => res_unit(tx.delete_bucket(v)),
            K::Slice(s) => res_unit(tx.delete_bucket(s)),
            K::Bytes(b) => res_unit(tx.delete_bucket(b)),
            K::Str(s) => res_unit(tx.delete_bucket(s)),
            K::String(s) => res_unit(tx.delete_bucket(s)),
        }),
        Step::Buckets { .. } => Obs::List(tx.buckets().take(ITER_CAP).map(|(n, _)| (n.name().to_vec(), None)).collect()),
        _ => Obs::Skipped,
    }
}

/// get_bucket / delete_bucket steps carry no route of their own: derive one from the name, so
/// that the same bucket is reached under different spellings (Vec, owned String, bytes::Bytes)
fn via_of(name: &[u8]) -> Via {
    match name.iter().fold(name.len() as u32, |a, b| a.wrapping_mul(31).wrapping_add(*b as u32)) % 4 {
        0 => Via::String,
        1 => Via::Bytes,
        2 => Via::Str,
        _ => Via::Vec,
    }
}

enum K<'x> {
    Vec(Vec<u8>),
    Slice(&'x [u8]),
    Bytes(bytes::Bytes),
    Str(&'x str),
    String(String),
}

fn with_key<'a, R>(b: &Blob, via: Via, arena: &'a Bump, f: impl FnOnce(K<'a>) -> R) -> R {
    let bytes = b.bytes();
    match via {
        Via::Vec => f(K::Vec(bytes)),
        Via::Slice => f(K::Slice(arena.alloc_slice_copy(&bytes))),
        Via::Bytes => f(K::Bytes(bytes::Bytes::from(bytes))),
        Via::Str => match std::str::from_utf8(&bytes) {
            Ok(s) => f(K::Str(arena.alloc_str(s))),
            Err(_) => f(K::Vec(bytes)),
        },
        Via::String => match String::from_utf8(bytes) {
            Ok(s) => f(K::String(s)),
            Err(e) => f(K::Vec(e.into_bytes())),
        },
    }
}

fn exec_bucket<'b, 'tx, 'a: 'tx>(b: &Bucket<'b, 'tx>, step: &Step, arena: &'a Bump) -> Obs {
    match step {
        Step::Put { key, val, via, .. } => {
            let v = val.bytes();
            let r = with_key(key, *via, arena, |k| match k {
                K::Vec(kv) => b.put(kv, v).map(|o| o.map(|kv| (kv.key().to_vec(), Some(kv.value().to_vec())))),
                K::Slice(s) => {
                    let vs: &'a [u8] = arena.alloc_slice_copy(&v);
                    b.put(s, vs).map(|o| o.map(|kv| (kv.key().to_vec(), Some(kv.value().to_vec()))))
                }
                K::Bytes(bb) => b.put(bb, bytes::Bytes::from(v)).map(|o| o.map(|kv| (kv.key().to_vec(), Some(kv.value().to_vec())))),
                K::Str(s) => b.put(s, v).map(|o| o.map(|kv| (kv.key().to_vec(), Some(kv.value().to_vec())))),
                K::String(s) => b.put(s, v).map(|o| o.map(|kv| (kv.key().to_vec(), Some(kv.value().to_vec())))),
            });
            match r {
                Ok(o) => Obs::Item(o),
                Err(e) => Obs::Err(EK::of(&e)),
            }
        }
        Step::Delete { key, .. } => match b.delete(key.bytes()) {
            Ok(kv) => Obs::Item(Some((kv.key().to_vec(), Some(kv.value().to_vec())))),
            Err(e) => Obs::Err(EK::of(&e)),
        },
        Step::Get { key, .. } => Obs::Item(b.get(key.bytes()).map(|d| data_item(&d))),
        Step::GetKv { key, .. } => Obs::Item(b.get_kv(key.bytes()).map(|kv| (kv.key().to_vec(), Some(kv.value().to_vec())))),
        Step::CreateBucket { name, via, .. } => with_key(name, *via, arena, |k| res_unit(match k {
            K::Vec(v) => b.create_bucket(v),
            K::Slice(s) => b.create_bucket(s),
            K::Bytes(x) => b.create_bucket(x),
            K::Str(s) => b.create_bucket(s),
            K::String(s) => b.create_bucket(s),
        })),
        Step::GetOrCreate { name, via, .. } => with_key(name, *via, arena, |k| res_unit(match k {
            K::Vec(v) => b.get_or_create_bucket(v),
            K::Slice(s) => b.get_or_create_bucket(s),
            K::Bytes(x) => b.get_or_create_bucket(x),
            K::Str(s) => b.get_or_create_bucket(s),
            K::String(s) => b.get_or_create_bucket(s),
        })),
        Step::GetBucket { name, .. } => with_key(name, via_of(&name.bytes()), arena, |k| res_unit(match k {
            K::Vec(v) => b.get_bucket(v),
            K::Slice(s) => b.get_bucket(s),
            K::Bytes(x) => b.get_bucket(x),
            K::Str(s) => b.get_bucket(s),
            K::String(s) => b.get_bucket(s),
        })),
        Step::DeleteBucket { name, .. } => with_key(name, via_of(&name.bytes()), arena, |k| match k {
            K::Vec(v) => res_unit(b.delete_bucket(v)),
            K::Slice(s) => res_unit(b.delete_bucket(s)),
            K::Bytes(x) => res_unit(b.delete_bucket(x)),
            K::Str(s) => res_unit(b.delete_bucket(s)),
            K::String(s) => res_unit(b.delete_bucket(s)),
        }),
        Step::NextInt { .. } => Obs::Int(b.next_int()),
        Step::Scan { extra_next, .. } => {
            let mut c = b.cursor();
            let mut v = Vec::new();
            for d in c.by_ref() {
                v.push(data_item(&d));
                if v.len() > ITER_CAP {
                    break;
                }
            }
            for _ in 0..*extra_next {
                if let Some(d) = c.next() {
                    // anything after the end is wrong: make the list differ
                    v.push(data_item(&d));
                }
            }
            Obs::List(v)
        }
        Step::Seek { key, take, warm, .. } => {
            let mut c = b.cursor();
            // a cursor that has already been iterated must seek exactly like a fresh one
            for _ in 0..*warm {
                if c.next().is_none() {
                    break;
                }
            }
            let found = c.seek(key.bytes());
            let current = c.current().map(|d| data_item(&d));
            let mut rest = Vec::new();
            let mut ended = false;
            while rest.len() < *take as usize {
                match c.next() {
                    Some(d) => rest.push(data_item(&d)),
                    None => {
                        ended = true;
                        break;
                    }
                }
            }
            let mut after_end = 0;
            if ended {
                for _ in 0..2 {
                    if c.next().is_some() {
                        after_end += 1;
                    }
                }
            }
            Obs::Seek { found, current, rest, after_end }
        }
        Step::Range { lo, lo_kind, hi, hi_kind, filter, .. } => {
            Obs::List(run_range(b, &lo.bytes(), *lo_kind, &hi.bytes(), *hi_kind, *filter, ITER_CAP))
        }
        Step::Buckets { .. } => Obs::List(b.buckets().take(ITER_CAP).map(|(n, _)| (n.name().to_vec(), None)).collect()),
        Step::KvPairs { .. } => Obs::List(b.kv_pairs().take(ITER_CAP).map(|kv| (kv.key().to_vec(), Some(kv.value().to_vec()))).collect()),
        _ => Obs::Skipped,
    }
}

/// The model twin of every operation; `view` is the in-transaction model.
pub fn model_apply(view: &mut MBucket, step: &Step, rw: bool) -> Obs {
    let path = match step.path() {
        Some(p) => p,
        None => return Obs::Skipped,
    };
    let root_level = path.is_empty();
    // Tx-level mutators check the transaction kind before anything else; bucket-level ones
    // are reached only after the path has been resolved with get_bucket.
    // the transaction itself has bucket-level calls only: anything else aimed at the root
    // level is not an API call at all
    if root_level
        && !matches!(
            step,
            Step::CreateBucket { .. } | Step::GetOrCreate { .. } | Step::GetBucket { .. } | Step::DeleteBucket { .. } | Step::Buckets { .. }
        )
    {
        return Obs::Skipped;
    }
    if root_level && step.is_mutator() && !rw {
        return Obs::Err(EK::ReadOnlyTx);
    }
    let b = match view.resolve_mut(path) {
        Ok(b) => b,
        Err(e) => return Obs::Err(e),
    };
    if step.is_mutator() && !rw {
        return Obs::Err(EK::ReadOnlyTx);
    }
    let r = |x: Result<(), EK>| match x {
        Ok(()) => Obs::Unit,
        Err(e) => Obs::Err(e),
    };
    match step {
        Step::Put { key, val, .. } => match b.put(&key.bytes(), &val.bytes()) {
            Ok(o) => Obs::Item(o),
            Err(e) => Obs::Err(e),
        },
        Step::Delete { key, .. } => match b.delete(&key.bytes()) {
            Ok(i) => Obs::Item(Some(i)),
            Err(e) => Obs::Err(e),
        },
        Step::Get { key, .. } => Obs::Item(b.get(&key.bytes())),
        Step::GetKv { key, .. } => Obs::Item(b.get_kv(&key.bytes())),
        Step::CreateBucket { name, .. } => r(b.create_bucket(&name.bytes())),
        Step::GetOrCreate { name, .. } => r(b.get_or_create_bucket(&name.bytes())),
        Step::GetBucket { name, .. } => r(b.get_bucket(&name.bytes())),
        Step::DeleteBucket { name, .. } => r(b.delete_bucket(&name.bytes())),
        Step::NextInt { .. } => Obs::Int(b.next_int),
        Step::Scan { .. } => Obs::List(b.items()),
        Step::Seek { key, .. } => {
            let k = key.bytes();
            Obs::Seek { found: b.entries.contains_key(&k), current: Some((k, None)), rest: b.items(), after_end: 0 }
        }
        Step::Range { lo, lo_kind, hi, hi_kind, filter, .. } => {
            Obs::List(model_range(&b.items(), &lo.bytes(), *lo_kind, &hi.bytes(), *hi_kind, *filter))
        }
        Step::Buckets { .. } => Obs::List(b.items().into_iter().filter(|i| i.1.is_none()).collect()),
        Step::KvPairs { .. } => Obs::List(b.items().into_iter().filter(|i| i.1.is_some()).collect()),
        _ => Obs::Skipped,
    }
}
