//! Steps of a history, explicit and serialisable, so that any subsequence is a valid history.
use crate::model::{hex_full, unhex, Path};
use serde_json::{json, Value};

/// A byte string: literal, or a deterministic pattern (tag, len) so that big values stay
/// small in replay files and every written value is unique and attributable.
#[derive(Clone, Debug, PartialEq, Eq, Hash)]
pub enum Blob {
    Raw(Vec<u8>),
    Pat { tag: u32, len: u32 },
}

impl Blob {
    pub fn bytes(&self) -> Vec<u8> {
        match self {
            Blob::Raw(v) => v.clone(),
            Blob::Pat { tag, len } => {
                let mut v = Vec::with_capacity(*len as usize);
                let t = tag.to_be_bytes();
                let mut st = (*tag as u64) << 20 | 0x5bd1;
                while v.len() < *len as usize {
                    if v.len() < 4 {
                        v.push(t[v.len()]);
                    } else {
                        if v.len() % 8 == 4 {
                            st = st.wrapping_mul(6364136223846793005).wrapping_add(1442695040888963407);
                        }
                        v.push((st >> (8 * (v.len() % 8))) as u8 | 1);
                    }
                }
                v
            }
        }
    }
    pub fn len(&self) -> usize {
        match self {
            Blob::Raw(v) => v.len(),
            Blob::Pat { len, .. } => *len as usize,
        }
    }
    pub fn to_json(&self) -> Value {
        match self {
            Blob::Raw(v) => Value::String(hex_full(v)),
            Blob::Pat { tag, len } => json!({"tag": tag, "len": len}),
        }
    }
    pub fn from_json(v: &Value) -> Option<Blob> {
        match v {
            Value::String(s) => Some(Blob::Raw(unhex(s)?)),
            Value::Object(o) => Some(Blob::Pat {
                tag: o.get("tag")?.as_u64()? as u32,
                len: o.get("len")?.as_u64()? as u32,
            }),
            _ => None,
        }
    }
}

#[derive(Clone, Copy, Debug, PartialEq, Eq, Hash)]
pub enum BoundKind {
    Unbounded,
    Included,
    Excluded,
}

/// How a key is handed to the API (different `ToBytes` implementations take different routes).
#[derive(Clone, Copy, Debug, PartialEq, Eq, Hash)]
pub enum Via {
    Vec,
    Slice,
    Bytes,
    Str,
    /// an owned String
    String,
}

#[derive(Clone, Debug, PartialEq, Eq, Hash)]
pub enum Step {
    Begin { rw: bool },
    Commit,
    Drop,
    Reopen,
    OpenReader,
    CloseReader { idx: u32 },
    Put { path: Path, key: Blob, val: Blob, via: Via },
    Delete { path: Path, key: Blob },
    Get { path: Path, key: Blob },
    GetKv { path: Path, key: Blob },
    CreateBucket { path: Path, name: Blob, via: Via },
    GetOrCreate { path: Path, name: Blob, via: Via },
    GetBucket { path: Path, name: Blob },
    DeleteBucket { path: Path, name: Blob },
    NextInt { path: Path },
    Scan { path: Path, extra_next: u32 },
    /// `warm`: how many entries the same cursor object yields before it is seeked
    Seek { path: Path, key: Blob, take: u32, warm: u32 },
    Range { path: Path, lo: Blob, lo_kind: BoundKind, hi: Blob, hi_kind: BoundKind, filter: u8 },
    Buckets { path: Path },
    KvPairs { path: Path },
    Check,
    /// media damage at rest (C06): before the next open of the existing file the header page
    /// that is *not* current is damaged in way `kind`; the open must still not touch the file
    DamageOlderHeader { kind: u8 },
    /// before the next open of the existing file both headers are re-stamped in the legacy
    /// (0.10, SHA3-256) format, as if an old release had written the file so far
    RestampLegacy,
}

fn path_json(p: &Path) -> Value {
    Value::Array(p.iter().map(|k| Value::String(hex_full(k))).collect())
}
fn path_from(v: &Value) -> Option<Path> {
    v.as_array()?.iter().map(|x| unhex(x.as_str()?)).collect()
}
fn bk(k: BoundKind) -> &'static str {
    match k {
        BoundKind::Unbounded => "unbounded",
        BoundKind::Included => "included",
        BoundKind::Excluded => "excluded",
    }
}
fn bk_from(s: &str) -> Option<BoundKind> {
    Some(match s {
        "unbounded" => BoundKind::Unbounded,
        "included" => BoundKind::Included,
        "excluded" => BoundKind::Excluded,
        _ => return None,
    })
}
fn via_s(v: Via) -> &'static str {
    match v {
        Via::Vec => "vec",
        Via::Slice => "slice",
        Via::Bytes => "bytes",
        Via::Str => "str",
        Via::String => "string",
    }
}
fn via_from(s: &str) -> Via {
    match s {
        "slice" => Via::Slice,
        "bytes" => Via::Bytes,
        "str" => Via::Str,
        "string" => Via::String,
        _ => Via::Vec,
    }
}

impl Step {
    pub fn name(&self) -> &'static str {
        match self {
            Step::Begin { rw: true } => "begin_rw",
            Step::Begin { rw: false } => "begin_ro",
            Step::Commit => "commit",
            Step::Drop => "drop",
            Step::Reopen => "reopen",
            Step::OpenReader => "open_reader",
            Step::CloseReader { .. } => "close_reader",
            Step::Put { .. } => "put",
            Step::Delete { .. } => "delete",
            Step::Get { .. } => "get",
            Step::GetKv { .. } => "get_kv",
            Step::CreateBucket { .. } => "create_bucket",
            Step::GetOrCreate { .. } => "get_or_create_bucket",
            Step::GetBucket { .. } => "get_bucket",
            Step::DeleteBucket { .. } => "delete_bucket",
            Step::NextInt { .. } => "next_int",
            Step::Scan { .. } => "scan",
            Step::Seek { .. } => "seek",
            Step::Range { .. } => "range",
            Step::Buckets { .. } => "buckets",
            Step::KvPairs { .. } => "kv_pairs",
            Step::Check => "check",
            Step::DamageOlderHeader { .. } => "damage_older_header",
            Step::RestampLegacy => "restamp_legacy",
        }
    }

    pub fn is_mutator(&self) -> bool {
        matches!(
            self,
            Step::Put { .. }
                | Step::Delete { .. }
                | Step::CreateBucket { .. }
                | Step::GetOrCreate { .. }
                | Step::DeleteBucket { .. }
        )
    }

    /// the (bucket path, key or name) a mutating step aims at
    pub fn target(&self) -> Option<(&Path, &Blob)> {
        match self {
            Step::Put { path, key, .. } | Step::Delete { path, key } => Some((path, key)),
            Step::CreateBucket { path, name, .. } | Step::GetOrCreate { path, name, .. } | Step::DeleteBucket { path, name } => Some((path, name)),
            _ => None,
        }
    }

    pub fn path(&self) -> Option<&Path> {
        match self {
            Step::Put { path, .. }
            | Step::Delete { path, .. }
            | Step::Get { path, .. }
            | Step::GetKv { path, .. }
            | Step::CreateBucket { path, .. }
            | Step::GetOrCreate { path, .. }
            | Step::GetBucket { path, .. }
            | Step::DeleteBucket { path, .. }
            | Step::NextInt { path }
            | Step::Scan { path, .. }
            | Step::Seek { path, .. }
            | Step::Range { path, .. }
            | Step::Buckets { path }
            | Step::KvPairs { path } => Some(path),
            _ => None,
        }
    }

    pub fn to_json(&self) -> Value {
        let op = self.name();
        match self {
            Step::Begin { .. } | Step::Commit | Step::Drop | Step::Reopen | Step::OpenReader | Step::Check | Step::RestampLegacy => {
                json!({ "op": op })
            }
            Step::CloseReader { idx } => json!({"op": op, "idx": idx}),
            Step::DamageOlderHeader { kind } => json!({"op": op, "kind": kind}),
            Step::Put { path, key, val, via } => {
                json!({"op": op, "path": path_json(path), "key": key.to_json(), "val": val.to_json(), "via": via_s(*via)})
            }
            Step::Delete { path, key } | Step::Get { path, key } | Step::GetKv { path, key } => {
                json!({"op": op, "path": path_json(path), "key": key.to_json()})
            }
            Step::CreateBucket { path, name, via } | Step::GetOrCreate { path, name, via } => {
                json!({"op": op, "path": path_json(path), "name": name.to_json(), "via": via_s(*via)})
            }
            Step::GetBucket { path, name } | Step::DeleteBucket { path, name } => {
                json!({"op": op, "path": path_json(path), "name": name.to_json()})
            }
            Step::NextInt { path } | Step::Buckets { path } | Step::KvPairs { path } => {
                json!({"op": op, "path": path_json(path)})
            }
            Step::Scan { path, extra_next } => json!({"op": op, "path": path_json(path), "extra_next": extra_next}),
            Step::Seek { path, key, take, warm } => {
                json!({"op": op, "path": path_json(path), "key": key.to_json(), "take": take, "warm": warm})
            }
            Step::Range { path, lo, lo_kind, hi, hi_kind, filter } => json!({
                "op": op, "path": path_json(path), "lo": lo.to_json(), "lo_kind": bk(*lo_kind),
                "hi": hi.to_json(), "hi_kind": bk(*hi_kind), "filter": filter
            }),
        }
    }

    pub fn from_json(v: &Value) -> Option<Step> {
        let op = v.get("op")?.as_str()?;
        let path = || path_from(v.get("path")?);
        let blob = |k: &str| Blob::from_json(v.get(k)?);
        let via = || via_from(v.get("via").and_then(|x| x.as_str()).unwrap_or("vec"));
        Some(match op {
            "begin_rw" => Step::Begin { rw: true },
            "begin_ro" => Step::Begin { rw: false },
            "commit" => Step::Commit,
            "drop" => Step::Drop,
            "reopen" => Step::Reopen,
            "open_reader" => Step::OpenReader,
            "check" => Step::Check,
            "restamp_legacy" => Step::RestampLegacy,
            "damage_older_header" => Step::DamageOlderHeader { kind: v.get("kind")?.as_u64()? as u8 },
            "close_reader" => Step::CloseReader { idx: v.get("idx")?.as_u64()? as u32 },
            "put" => Step::Put { path: path()?, key: blob("key")?, val: blob("val")?, via: via() },
            "delete" => Step::Delete { path: path()?, key: blob("key")? },
            "get" => Step::Get { path: path()?, key: blob("key")? },
            "get_kv" => Step::GetKv { path: path()?, key: blob("key")? },
            "create_bucket" => Step::CreateBucket { path: path()?, name: blob("name")?, via: via() },
            "get_or_create_bucket" => Step::GetOrCreate { path: path()?, name: blob("name")?, via: via() },
            "get_bucket" => Step::GetBucket { path: path()?, name: blob("name")? },
            "delete_bucket" => Step::DeleteBucket { path: path()?, name: blob("name")? },
            "next_int" => Step::NextInt { path: path()? },
            "buckets" => Step::Buckets { path: path()? },
            "kv_pairs" => Step::KvPairs { path: path()? },
            "scan" => Step::Scan { path: path()?, extra_next: v.get("extra_next")?.as_u64()? as u32 },
            "seek" => Step::Seek { path: path()?, key: blob("key")?, take: v.get("take")?.as_u64()? as u32, warm: v.get("warm").and_then(|x| x.as_u64()).unwrap_or(0) as u32 },
            "range" => Step::Range {
                path: path()?,
                lo: blob("lo")?,
                lo_kind: bk_from(v.get("lo_kind")?.as_str()?)?,
                hi: blob("hi")?,
                hi_kind: bk_from(v.get("hi_kind")?.as_str()?)?,
                filter: v.get("filter")?.as_u64()? as u8,
            },
            _ => return None,
        })
    }
}
