"""Scratch worktrees of /repo under /dev/shm for tools that break the tree on purpose.
/repo itself is never modified; the checks are pointed at the worktree with VERIF_REPO."""
import itertools, os, shutil, subprocess, threading, time

REPO = "/repo"
VERIF = "/verif"
_n = itertools.count()
_lock = threading.Lock()


def sh(cmd, timeout=7200, cwd=None, env=None):
    return subprocess.run(cmd, shell=True, capture_output=True, text=True, timeout=timeout, cwd=cwd, env=env)


class Worktree:
    def __init__(self, tag):
        with _lock:
            self.path = f"/dev/shm/{tag}-{os.getpid()}-{next(_n)}"
            sh(f"git -C {REPO} worktree remove --force {self.path}")
            r = sh(f"git -C {REPO} worktree add -q --detach {self.path} HEAD")
        if r.returncode != 0:
            raise RuntimeError("worktree: " + r.stderr)

    def __enter__(self):
        return self

    def __exit__(self, *a):
        env = f"VERIF_REPO={self.path}"
        sh(f"{env} ./check drop-alt", cwd=VERIF)
        with _lock:
            sh(f"git -C {REPO} worktree remove --force {self.path}")
        shutil.rmtree(self.path, ignore_errors=True)

    def suite_passes(self):
        r = sh("timeout 2400 cargo test --workspace --no-fail-fast --offline 2>&1 | grep -E '^test result|FAILED|^error' | head -20", cwd=self.path)
        ok = "FAILED" not in r.stdout and "error" not in r.stdout and r.stdout.count("test result: ok") >= 7
        return ok, r.stdout[-400:]

    def builds(self):
        r = sh("cargo build --offline 2>&1 | tail -3", cwd=self.path)
        return "error" not in r.stdout

    def check(self, prop, tier="quick", jobs=None):
        """-> dict(violations, harness_error, ran, seconds, first)"""
        ev = f"{VERIF}/out/evidence-scratch-{os.path.basename(self.path)}"
        env = f"VERIF_REPO={self.path} VERIF_EVIDENCE_DIR={ev}" + (f" VERIF_JOBS={jobs}" if jobs else "")
        t0 = time.time()
        r = sh(f"{env} timeout 3600 ./check {prop} {tier} 2>&1 | tail -40", cwd=VERIF)
        shutil.rmtree(ev, ignore_errors=True)
        lines = r.stdout.splitlines()
        viol = [i for i, l in enumerate(lines) if l.startswith("VIOLATION")]
        return {
            "violations": len(viol),
            "harness_error": any("HARNESS-ERROR" in l for l in lines),
            "ran": any(" runs (" in l for l in lines) or bool(viol),
            "seconds": round(time.time() - t0, 1),
            "first": (lines[viol[0] + 1].strip()[:300] if viol and viol[0] + 1 < len(lines) else ""),
        }
