#!/usr/bin/env python3
"""Unbiased sensitivity sample: mechanically generated one-token mutants of /repo/src.

    tools/automutants.py gen [--seed N] [--count K]     # list a seeded sample of candidate edits
    tools/automutants.py run [--seed N] [--count K] [--budget-min M]

For each sampled mutant: apply to /repo, build; skip if it does not compile; run the pinned
suite (a mutant the suite already kills is recorded and skipped); otherwise run the quick
checks relevant to the edited file (cheapest first) until one reports a violation. Results go
to /verif/out/automutants.json (and are appended across invocations). /repo is always restored.
Survivors need triage: equivalent mutant, or a gap in the checks."""
import json, os, random, re, subprocess, sys, time

REPO = "/repo"
VERIF = "/verif"

# (regex, replacement) token-level operators; applied to one occurrence on one line
OPS = [
    (r" < ", " <= "), (r" <= ", " < "), (r" > ", " >= "), (r" >= ", " > "),
    (r" == ", " != "), (r" != ", " == "),
    (r" \+ 1\b", " + 0"), (r" - 1\b", " - 0"), (r" \+ 1\b", " + 2"),
    (r" && ", " || "), (r" \|\| ", " && "),
    (r"\btrue\b", "false"), (r"\bfalse\b", "true"),
    (r"\.saturating_sub\(1\)", ""),
    (r"if !", "if "),
]
# statement deletions: whole lines that are calls whose result is unused
DELETABLE = re.compile(r"^\s*(self\.|node\.|parent\.|sibling\.|freelist\.|tx_freelist\.|file\.|lock\.|open_txs\.|open_ro_txs\.|branches\.|b\.|c\.)[\w\.]+\(.*\)\??;\s*$")

FILES = {
    "src/tx.rs": ["C01", "C06", "C03", "C10", "C02", "C11", "C04", "C09"],
    "src/freelist.rs": ["C05", "C01", "C03", "C10", "C02"],
    "src/bucket.rs": ["C05", "C01", "C07", "C06", "C10"],
    "src/node.rs": ["C05", "C01", "C07", "C16"],
    "src/cursor.rs": ["C08", "C07", "C01"],
    "src/page_node.rs": ["C08", "C01", "C07"],
    "src/db.rs": ["C01", "C15", "C12", "C13", "C16", "C06", "C02"],
    "src/meta.rs": ["C15", "C12", "C01"],
    "src/page.rs": ["C01", "C05", "C15"],
    "src/bytes.rs": ["C01", "C07"],
    "src/data.rs": ["C01", "C08"],
}


def sh(cmd, timeout=3600, cwd=None):
    return subprocess.run(cmd, shell=True, capture_output=True, text=True, timeout=timeout, cwd=cwd)


def candidates():
    out = []
    for f in FILES:
        lines = open(os.path.join(REPO, f)).read().split("\n")
        in_tests = False
        for i, l in enumerate(lines):
            if "#[cfg(test)]" in l:
                in_tests = True
            if in_tests:
                continue
            s = l.strip()
            if not s or s.startswith("//") or s.startswith("///") or s.startswith("#[") or "debug_assert" in l or "assert" in l or "panic!" in l:
                continue
            for (pat, rep) in OPS:
                for m in re.finditer(pat, l):
                    out.append({"file": f, "line": i + 1, "col": m.start(), "kind": f"{pat.strip()} -> {rep.strip() or '(removed)'}",
                                "old": l, "new": l[:m.start()] + rep + l[m.end():]})
            if DELETABLE.match(l) and "lock()" not in l:
                out.append({"file": f, "line": i + 1, "col": 0, "kind": "delete statement", "old": l, "new": ""})
    return out


def apply(m):
    p = os.path.join(REPO, m["file"])
    lines = open(p).read().split("\n")
    if lines[m["line"] - 1] != m["old"]:
        return False
    lines[m["line"] - 1] = m["new"]
    open(p, "w").write("\n".join(lines))
    return True


def revert():
    sh(f"git -C {REPO} checkout -- src")


def main():
    args = sys.argv[1:]
    mode = args[0] if args else "gen"
    opt = lambda k, d: int(args[args.index(k) + 1]) if k in args else d
    seed, count, budget = opt("--seed", 1), opt("--count", 40), opt("--budget-min", 600)
    cands = candidates()
    rnd = random.Random(seed)
    rnd.shuffle(cands)
    sample = cands[:count]
    if mode == "gen":
        print(len(cands), "candidates;", "sample:")
        for m in sample:
            print(f"{m['file']}:{m['line']} {m['kind']}  | {m['old'].strip()[:90]}")
        return
    if sh(f"git -C {REPO} status --porcelain -- src").stdout.strip():
        print("refusing: /repo/src has uncommitted changes", file=sys.stderr)
        sys.exit(2)
    outp = f"{VERIF}/out/automutants.json"
    results = json.load(open(outp)) if os.path.exists(outp) else []
    done = {(r["file"], r["line"], r["kind"]) for r in results}
    t_start = time.time()
    try:
        for m in sample:
            if (m["file"], m["line"], m["kind"]) in done:
                continue
            if time.time() - t_start > budget * 60:
                break
            r = {"file": m["file"], "line": m["line"], "kind": m["kind"], "old": m["old"].strip(), "new": m["new"].strip()}
            if not apply(m):
                continue
            b = sh(f"cd {REPO} && cargo build --offline 2>&1 | tail -3")
            if "error" in b.stdout:
                r["status"] = "does not compile"
                revert(); results.append(r); json.dump(results, open(outp, "w"), indent=1)
                print(m["file"], m["line"], m["kind"], "-> does not compile")
                continue
            t = sh(f"cd {REPO} && timeout 900 cargo test --workspace --no-fail-fast --offline 2>&1 | grep -E '^test result|^error' | head -20")
            suite_ok = "FAILED" not in t.stdout and "error" not in t.stdout and t.stdout.count("test result: ok") >= 7
            if not suite_ok:
                r["status"] = "killed by the pinned suite"
                revert(); results.append(r); json.dump(results, open(outp, "w"), indent=1)
                print(m["file"], m["line"], m["kind"], "-> killed by the pinned suite")
                continue
            r["status"] = "survives the pinned suite"
            r["checks"] = {}
            caught = None
            for c in FILES[m["file"]]:
                t0 = time.time()
                cr = sh(f"cd {VERIF} && VERIF_EVIDENCE_DIR={VERIF}/out/evidence-automutants timeout 1800 ./check {c} quick 2>&1 | tail -12")
                lines = cr.stdout.splitlines()
                viol = [i for i, l in enumerate(lines) if l.startswith("VIOLATION")]
                herr = any("HARNESS-ERROR" in l for l in lines)
                r["checks"][c] = {"violations": len(viol), "harness_error": herr, "seconds": round(time.time() - t0, 1),
                                  "first": lines[viol[0] + 1].strip()[:200] if viol and viol[0] + 1 < len(lines) else ""}
                if viol:
                    caught = c
                    break
            r["caught_by"] = caught
            revert(); results.append(r); json.dump(results, open(outp, "w"), indent=1)
            print(m["file"], m["line"], m["kind"], "-> survives suite;", "caught by " + caught if caught else "NOT CAUGHT", "|", m["old"].strip()[:80])
    finally:
        revert()
    n_surv = [r for r in results if r.get("status") == "survives the pinned suite"]
    print(f"total {len(results)}: {len(n_surv)} survive the pinned suite, of which {sum(1 for r in n_surv if r.get('caught_by'))} caught by a check")


main()
