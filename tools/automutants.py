#!/usr/bin/env python3
"""Unbiased sensitivity sample: mechanically generated one-token mutants of /repo/src.

    tools/automutants.py gen [--seed N] [--count K]     # list a seeded sample of candidate edits
    tools/automutants.py run [--seed N] [--count K] [--budget-min M] [--par P]

For each sampled mutant: apply to a scratch worktree of /repo, build; skip if it does not compile; run the pinned
suite (a mutant the suite already kills is recorded and skipped); otherwise run the quick
checks relevant to the edited file (cheapest first) until one reports a violation. Results go
to /verif/out/automutants.json (and are appended across invocations). /repo is never touched.
Survivors need triage: equivalent mutant, or a gap in the checks."""
import concurrent.futures, json, os, random, re, sys, threading, time
sys.path.insert(0, os.path.dirname(os.path.abspath(__file__)))
from scratch import Worktree

REPO = "/repo"
VERIF = "/verif"

# (regex, replacement) token-level operators; applied to one occurrence on one line
OPS = [
    (r" < ", " <= "), (r" <= ", " < "), (r" > ", " >= "), (r" >= ", " > "),
    (r" == ", " != "), (r" != ", " == "),
    (r" \+ 1\b", " + 0"), (r" - 1\b", " - 0"), (r" \+ 1\b", " + 2"),
    (r" && ", " || "), (r" \|\| ", " && "),
    (r"\btrue\b", "false"), (r"\bfalse\b", "true"),
    (r"\.saturating_sub\(1\)", ""),
    (r"if !", "if "),
]
# statement deletions: whole lines that are calls whose result is unused
DELETABLE = re.compile(r"^\s*(self\.|node\.|parent\.|sibling\.|freelist\.|tx_freelist\.|file\.|lock\.|open_txs\.|open_ro_txs\.|branches\.|b\.|c\.)[\w\.]+\(.*\)\??;\s*$")

FILES = {
    "src/tx.rs": ["C01", "C06", "C03", "C10", "C02", "C11", "C04", "C09"],
    "src/freelist.rs": ["C05", "C01", "C03", "C10", "C02"],
    "src/bucket.rs": ["C05", "C01", "C07", "C06", "C10"],
    "src/node.rs": ["C05", "C01", "C07", "C16"],
    "src/cursor.rs": ["C08", "C07", "C01"],
    "src/page_node.rs": ["C08", "C01", "C07"],
    "src/db.rs": ["C01", "C15", "C12", "C13", "C16", "C06", "C02", "C09", "C04"],
    "src/meta.rs": ["C15", "C12", "C01"],
    "src/page.rs": ["C01", "C05", "C15"],
    "src/bytes.rs": ["C01", "C07"],
    "src/data.rs": ["C01", "C08"],
}


def candidates():
    out = []
    for f in FILES:
        lines = open(os.path.join(REPO, f)).read().split("\n")
        in_tests = False
        for i, l in enumerate(lines):
            if "#[cfg(test)]" in l:
                in_tests = True
            if in_tests:
                continue
            s = l.strip()
            if not s or s.startswith("//") or s.startswith("///") or s.startswith("#[") or "debug_assert" in l or "assert" in l or "panic!" in l:
                continue
            for (pat, rep) in OPS:
                for m in re.finditer(pat, l):
                    out.append({"file": f, "line": i + 1, "col": m.start(), "kind": f"{pat.strip()} -> {rep.strip() or '(removed)'}",
                                "old": l, "new": l[:m.start()] + rep + l[m.end():]})
            if DELETABLE.match(l) and "lock()" not in l:
                out.append({"file": f, "line": i + 1, "col": 0, "kind": "delete statement", "old": l, "new": ""})
    return out


def apply(m, root):
    p = os.path.join(root, m["file"])
    lines = open(p).read().split("\n")
    if lines[m["line"] - 1] != m["old"]:
        return False
    lines[m["line"] - 1] = m["new"]
    open(p, "w").write("\n".join(lines))
    return True


def main():
    args = sys.argv[1:]
    mode = args[0] if args else "gen"
    opt = lambda k, d: int(args[args.index(k) + 1]) if k in args else d
    seed, count, budget, par = opt("--seed", 1), opt("--count", 40), opt("--budget-min", 600), opt("--par", 1)
    cands = candidates()
    rnd = random.Random(seed)
    rnd.shuffle(cands)
    sample = cands[:count]
    if mode == "gen":
        print(len(cands), "candidates;", "sample:")
        for m in sample:
            print(f"{m['file']}:{m['line']} {m['kind']}  | {m['old'].strip()[:90]}")
        return
    outp = f"{VERIF}/out/automutants.json"
    results = json.load(open(outp)) if os.path.exists(outp) else []
    done = {(r["file"], r["line"], r["kind"]) for r in results}
    t_start = time.time()
    lock = threading.Lock()
    jobs = max(2, 16 // par)

    def one(m):
        if (m["file"], m["line"], m["kind"]) in done or time.time() - t_start > budget * 60:
            return None
        r = {"file": m["file"], "line": m["line"], "kind": m["kind"], "old": m["old"].strip(), "new": m["new"].strip()}
        with Worktree("automutant") as wt:
            if not apply(m, wt.path):
                return None
            if not wt.builds():
                r["status"] = "does not compile"
                return r
            ok, _ = wt.suite_passes()
            if not ok:
                r["status"] = "killed by the pinned suite"
                return r
            r["status"] = "survives the pinned suite"
            r["checks"] = {}
            r["caught_by"] = None
            for c in FILES[m["file"]]:
                res = wt.check(c, jobs=jobs)
                r["checks"][c] = res
                if res["violations"]:
                    r["caught_by"] = c
                    break
        return r

    with concurrent.futures.ThreadPoolExecutor(par) as ex:
        for r in ex.map(one, sample):
            if r is None:
                continue
            with lock:
                results.append(r)
                json.dump(results, open(outp, "w"), indent=1)
            what = r["status"] if r["status"] != "survives the pinned suite" else ("survives suite; " + ("caught by " + r["caught_by"] if r["caught_by"] else "NOT CAUGHT"))
            print(f"{r['file']}:{r['line']} {r['kind']} -> {what} | {r['old'][:80]}", flush=True)
    n_surv = [r for r in results if r.get("status") == "survives the pinned suite"]
    print(f"total {len(results)}: {len(n_surv)} survive the pinned suite, of which {sum(1 for r in n_surv if r.get('caught_by'))} caught by a check")


main()
