#!/usr/bin/env python3
"""Writes /verif/MANIFEST.json. Edit the tables below, run, commit."""
import json, subprocess
CLAIMED = {
 "C01": ("exploration", "seq", "4.C01",
   "Seeded swarm histories (put/get/delete, bucket create/get/get-or-create/delete at any depth, scans, commit, rollback, close+reopen; empty, long and larger-than-page keys; values from 0 B to several pages; shape-targeted deletions of whole leaves, leaf subsets, leaf boundaries, by key deletion and by bucket deletion; runs of dozens of sibling buckets so that leaves consist of bucket entries; repeated operations on the same key; keys of about half a page; one run in eight at page size 1032; in one run in eight the headers are re-stamped in the legacy 0.10 format at a reopen and the history goes on; one run in a thousand loads more than 2^16 entries into one bucket in a single transaction and works beyond 2^16) are run through the real library over SimOS and compared call by call with a nested ordered-map model; after every commit a fresh transaction, a reopened handle and an independent parse of the raw file must all equal the model. Sampling, not proof: the space is infinite, the sample is large and biased to the tree shapes the statement names.",
   "model.rs and fsck.rs are trusted; each run is one seed, fully replayable; histories are bounded (<=12 transactions, <=300 steps each)",
   "deterministic simulation: seeded histories vs reference model (fault-free configuration)"),
 "C03": ("exploration", "seq-mr", "4.C03",
   "Up to four logical read-only transactions of different ages are held open on one thread while writers (update/delete heavy, multi-page values, bucket deletes) commit and roll back; after every single step every open reader is re-read in full and compared with the model snapshot taken when it began. Files start at 8 MiB so that no commit has to extend the file while a reader is open (documented self-deadlock).",
   "single-threaded logical concurrency only (thread schedules are C04's); model and walk are trusted",
   "deterministic simulation: seeded interleaving of reader open/close with writers, per-reader frozen model snapshot"),
 "C05": ("exploration", "seq+fsck", "4.C05",
   "After every successful commit of workloads biased to bucket deletion at several depths, splits, merges in both directions, root collapse, overflow values and growth, an independent parser of the raw file bytes checks exactly the clauses of the statement (each page below the high-water mark is exactly one of header / reachable once with its overflow run / free-list page / free-list entry; free list sorted and duplicate free; keys strictly ascending within and across pages; separators bound their subtrees; every element inside its page run; element types valid) and DB::check() must agree.",
   "fsck.rs encodes the pinned on-disk layout and is trusted; no layout preference (fill factor, page choice) is asserted",
   "deterministic simulation: invariant monitor (independent file checker) after every commit of seeded histories"),
 "C06": ("exploration", "seq+simos-log", "4.C06",
   "Histories with a high rollback rate and read-only transactions that attempt every mutator. Oracles: a dropped write transaction and any read-only transaction issue no write/extend/sync call on the file (SimOS event log); after rollback a fresh transaction equals the prior model; every call that returned an error left the in-transaction view equal to the unchanged model; every mutator and commit on a read-only transaction returns the read-only error; opening an existing file issues no write, also with other open options and also when the header page that is not current was damaged at rest just before (media fault injected before one reopen in three: first sector, page-type byte, a record byte, the checksum, or the whole page); in strict-mode runs every third commit is made while one byte of a live leaf page of a bucket the transaction has not opened is damaged behind the code's back: if the built-in check refuses the commit (InvalidDB) a fresh transaction must show exactly the prior state; the accounting differential re-runs the history without the abandoned transactions and compares contents, high-water mark and free pages at every commit.",
   "the syscall seam sees every route to the file (checked by the shadow/file comparison at the end of each run)",
   "deterministic simulation: SimOS event log + model around rollbacks, failed calls and read-only mutators"),
 "C07": ("exploration", "seq-sweep", "4.C07",
   "Inside write transactions the whole read API (get, get_kv, cursor scan, buckets, kv_pairs, next_int, plus enumerated seeks and ranges on touched buckets) is compared with the model-in-transaction after every single mutating step, every mutator is additionally bracketed by a point lookup of the very key it aims at immediately before and after it (read-modify-write), over starting trees produced by earlier commits and shape-targeted steps that empty first / middle / last leaves and refill them.",
   "model and walk are trusted; bounded transactions (<=25 random steps plus macros)",
   "deterministic simulation: full read sweep vs in-transaction model after every operation"),
 "C08": ("exploration", "seq-probe", "4.C08",
   "The simulator supplies the buckets (empty, single-leaf, multi-level; committed and mid-transaction); on each, seek keys (every present key, its byte predecessor / successor / extension / truncation, the empty key, below-min, above-max) and pairs of range bounds of all nine kind combinations are enumerated and compared with the model: seek flag = membership, iteration continues at the key or an immediate neighbour with every later entry in order, next() after the end stays None, ranges yield exactly the entries within bounds, to_buckets / to_kv_pairs filter without skipping or duplicating; the iterator adaptor routes (nth, skip, step_by, count, last, fold) agree with stepping entry by entry; a cursor that was seeked or iterated anywhere else in the tree seeks like a fresh one. The statement has no fault or schedule dimension; this is the simulator's fault-free configuration with enumerated inputs per tree.",
   "for buckets with more than ~8 probe keys the bound pairs are strided, not exhaustive (the evidence says how many inputs were enumerated)",
   "deterministic simulation (fault-free): enumerated seek/range inputs per simulated tree vs model"),
}
NOT_YET = {
 "C14": "decided by rustc's type checker over a corpus of programs: no schedule, clock, fault or history for a simulator to control (DESIGN.md section 4, C14)",
}
PENDING = {}

CLAIMED.update({
 "C02": ("fault_enumeration", "crash", "4.C02",
   "A seeded history runs over SimOS, which logs every write, extension and sync with its bytes. For each chosen commit (all when few, otherwise biased to growth and large commits) the engine synthesises the images a crash could leave: process kill at every prefix of the commit's I/O and one point after it; power loss at the end of every sync epoch inside the commit and at return, with EVERY subset of the writes issued since the last completed sync when there are at most 10 (prefixes, leave-one-out, singletons and a seeded sample otherwise), sector-granular tears of surviving multi-sector writes, and word-granular tears of the header write (all prefixes, single words, all-but-one; all 2^13 word subsets for one commit per run in thorough). Every image is reopened through the public API: open must succeed, the raw file must pass the independent checker, the contents must be exactly the pre- or exactly the post-state (only post once commit has returned), and a further write transaction must commit and verify (after a torn-header recovery too; every other such follow-up is preceded by an abandoned write transaction; at the second level the follow-up commit is crashed in turn: kill prefixes, leave-one-out subsets and word tears of its header write). In a third of the runs the headers are re-stamped in the legacy 0.10 format at a reopen, so commits on an upgraded file are crashed too.",
   "classic durable-media model: a write issued since the last completed fsync may persist or not, torn at 512 B sectors (header at 8 B words); lying firmware, misdirected writes and O_DIRECT are out of scope; crash during initial file creation is outside the quantifier",
   "deterministic simulation with fault injection: crash-image enumeration from the SimOS event log"),
 "C11": ("fault_enumeration", "fault", "4.C11",
   "Pass 1 runs a seeded history fault-free and records the ordered I/O calls of every commit. Pass 2 re-executes the history once per (chosen commit, call index, applicable fault): write -> EIO / ENOSPC / disk stays full / short write then EIO (cut at eighths of the buffer and at every 8-byte word of the first 96 bytes, i.e. inside the header record) / EINTR once / short write only; fsync -> EIO / EINTR; fallocate -> ENOSPC / EFBIG; mmap during growth -> ENOMEM; lseek -> EIO; plus sampled pairs. Oracle: commit returns (no panic), Err for non-benign and Ok for benign faults; on the same handle a fresh transaction shows exactly the old or exactly the new state and the raw file agrees; the rest of the history, three further write transactions (one with a multi-page value) and a reopen all verify against the model and the file checker.",
   "single faults are exhaustive over the calls of the chosen commits only; a failed fsync leaves the written data in the page cache (the harsher drop-dirty-pages model is not applied, the statement does not ask for it)",
   "deterministic simulation with fault injection: per-call errno / short-write plans at the libc seam"),
 "C12": ("fault_enumeration", "corrupt", "4.C12",
   "After n = 0..6 commits whose states all differ and a clean close, every byte offset of either header page is mutated five ways (xor 0x01, xor 0x80, xor 0xff, zero, seeded byte), plus page zero / ones, record zero, seeded multi-byte overwrites and the other header's record copied over; one run in four first rewrites both headers in the legacy (SHA3) format, and in half of those the current code then makes one more commit (one header new-format, one legacy); one history in four ends with a commit that changed nothing. Each image is reopened: open must succeed without panic and show in full the state of the header the format still considers valid (the independent checker's rule decides whether a mutation invalidated the header; for bytes neither checksummed nor used either state is accepted).",
   "exhaustive over offsets and the listed mutations for the sampled histories; page size 1024 in quick, 1024-4096 in thorough",
   "deterministic simulation with fault injection: exhaustive single-byte media damage of either header"),
})


CLAIMED.update({
 "C10": ("exploration", "seq-long + shuttle", "4.C10",
   "Long runs (300-600 transactions in quick, 1000-3000 in thorough) of six steady-state workloads (fixed-size overwrite, variable-size overwrite with multi-page values, sliding-window insert/delete, bucket create/delete churn, mixed, and small overwrites plus multi-page values on top of a large fragmented free list left by deleting alternating leaves of 300-2000 keys), with short keys or keys padded to a fifth / half of the page size (oversized branch pages), with periodic close+reopen or a reader pinned across a stretch; every third or fifth transaction may be preceded by the same work done in a transaction that is dropped; reader chains open twin readers on one snapshot; buckets are also committed empty and deleted later; a pinning reader that loses its snapshot is a violation of this property. After every commit the independent checker reads the page high-water mark, live and free pages from the raw file. Oracle, independent of the number of transactions: hwm <= 5*L+16 where L is the largest number of live pages ever seen, the second half of the run (or, with a pinned reader, everything from five transactions after it closed) may not raise the mark by more than min(8+2L, 8+4D) pages where D is the largest number of pages one commit of that stretch writes (from the SimOS log), the pinned reader still reads its snapshot, and the file is no longer than the mark rounded up to the growth step plus one step. A reader-chain mode keeps overlapping readers open so that one is open whenever a writer begins (bound (life+7)*L+16). Live data L is the number of pages actually reachable in the file, so a leak cannot hide inside L. A second, threaded part (shuttle, like C04) lets two or three reader threads open and close transactions while a writer commits under seeded schedules; after every reader is gone ten more overwrite commits must plateau.",
   "the constants are calibrated on the repaired tree with about 2x head-room; reader variants start with a 256 MiB sparse file and a run is skipped, not judged, if a commit would have to grow the file while the harness holds a reader on the committing thread (reader + growing writer on one thread self-deadlocks by construction); the threaded part runs on shuttle primitives",
   "deterministic simulation: long seeded histories, growth bound read from the raw file after every commit"),
 "C15": ("exploration", "compat", "4.C15",
   "Version change as a restart onto an old node's disk: the pinned release (vendored verbatim as crate jammdb_pinned) writes a seeded database at page size 1024 / 4096 / 5000 / 16384 with nested buckets, multi-page values and a non-empty free list; the independent reader must agree; the current tree must then show identical contents, run a seeded continuation under the model oracle and the file checker, and the pinned release must read what the current tree wrote; the same with both headers rewritten in the legacy SHA3 format; every other page size of the set must be refused with zero write/extend/sync calls and unchanged bytes. Eight byte-exact golden images produced from the pinned commit are committed with their recorded contents and checked on every run.",
   "fixed set of page sizes; the vendored copy is the pinned commit's src/ verbatim; fsck.rs encodes the pinned layout",
   "deterministic simulation: old-version disk images as the restart state, cross-version read-back, golden images"),
 "C16": ("exploration", "seq-cfg", "4.C16",
   "One seeded history (generated once, sizes independent of the page size under test; one in five is a growth history that writes >30 MiB from a 4-page file) is executed under option sets from the product page size {1024,1032,2048,3000,4096,5000,16384,65536,1 MiB} x initial pages {4,32,1000} x strict x populate (all in thorough, a seeded dozen with the corners in quick), each in its own child process; every reopen inside the history asks for another initial page count of the set (documented to have no effect on an existing file). Every run must pass the model oracle (so strict mode never rejects a valid commit), all transcripts of returned values must be identical, and a child killed by a signal is a violation. Page sizes that are not a multiple of 8 must work identically or be refused before the file is touched.",
   "populate with files above 256 MiB is excluded (eager population of sparse tmpfs per child); which neighbour a seek for an absent key lands on is layout dependent and kept out of the transcript",
   "deterministic simulation: same seed under every configuration, child-process isolation, transcript equality"),
})


CLAIMED.update({
 "C04": ("exploration", "shuttle", "4.C04",
   "Real jammdb threads on shuttle's scheduler (through the one guarded hook the locks are shuttle's Mutex and a reader-writer lock on shuttle primitives that, per execution, either queues new readers behind a waiting writer like the futex lock std uses on Linux or lets them in like shuttle's own; every operation on jammdb's five locks and every tracked SimOS call is a scheduling point). Scenario per seed: one or two reader threads against a chain of two to four commits (from one writer thread, or in one run out of four from two writer threads that each write the successor of the version they read inside their write transaction) that each rewrite every key with a version tag on a database whose free list is already populated, so commits reuse pages; optionally a commit that grows the file. Oracle over the recorded history: every read of a reader shows exactly one version with exactly that version's key set and values, at least as new as the newest commit that had returned before the reader called tx(), and the same on every re-read. Schedules: seeded random, PCT (depth 1-5) and a seeded bounded-preemption scheduler; a failing schedule is recorded as the list of task choices, minimised (tail truncation, preemption removal) and replayed exactly.",
   "sampling of schedules, not enumeration; sequentially consistent interleavings of lock operations and syscalls (jammdb has no atomics or lock-free code); both reader-writer priority policies std may have are explored, mutex hand-off order is the scheduler's choice",
   "deterministic simulation: seeded thread schedules (random / PCT / bounded preemption) over real code on shuttle primitives"),
 "C09": ("exploration", "shuttle", "4.C09",
   "Two or three writer threads each do read-modify-write increments of one counter (one commit may carry a 9 MiB value so that it grows the file), one or two reader threads loop open/read/close and now and then call DB::check(); in a quarter of the runs a writer holds its transaction open until a reader has completed a whole transaction. Oracles: a flag set while a write transaction is open is never found set by another writer; the final counter equals the number of successful commits; every reader sees a counter between the commits completed before it began and those started by the time it ended, never decreasing; shuttle reports no deadlock and no execution exceeds the step bound (bounded liveness, in steps); half of the executions use a writer-preferring reader-writer lock (a reader arriving while a writer waits queues behind it, as on Linux), half an unfair one.",
   "every thread holds at most one transaction (the documented usage); starvation under unbounded unfair schedules is outside the statement",
   "deterministic simulation: seeded thread schedules with deadlock and step-bound detection"),
 "C13": ("exploration", "shuttle-mp", "4.C13",
   "Openers of the same path run as simulated processes (shuttle tasks, each with its own descriptor, mapping and DB) over SimOS's flock table, which implements flock(2) per open file description; statx, open, fallocate, write, fsync, flock, mmap and close on the file are scheduling points, i.e. every ordering that can be forced at system-call boundaries. Two or three openers, file pre-existing or not: open, check that the marker of every opener that closed before this open began is present, commit an own marker, close. In a third of the runs on a new file the disk is full when the first opener allocates the file (its open fails, a legitimate outcome). An opener may clone and drop a clone of its handle, commit enough to grow the file and keep using the database afterwards; a blocked flock may be interrupted by a signal (EINTR). Time is simulated (sleeps cost nothing and yield), a mapping keeps its open file description and the lock held through it alive until munmap, rename / unlink follow the path table, duplicated descriptors (dup, fcntl F_DUPFD) share their open file description. Oracles: never two openers inside, no opener gets an error or a panic, every marker survives, no deadlock, step bound.",
   "the kernel's own flock and real cross-process behaviour are not run; the lock table is a stub with flock(2) semantics",
   "deterministic simulation: openers as simulated processes over a simulated file lock, seeded orderings at syscall boundaries"),
})

def main():
    checks=[]
    for pid,(lvl,eng,ref,text,note,tech) in sorted(CLAIMED.items()):
        checks.append({
          "property_id": pid,
          "quick_cmd": f"./check {pid} quick",
          "thorough_cmd": f"./check {pid} thorough",
          "evidence_file": f"/verif/evidence/{pid}.json",
          "replay_cmd_template": "./check replay {path}",
          "engine": eng,
          "level_claimed": {"category": lvl, "text": text, "design_ref": ref},
          "level_note": note,
          "technique": tech,
        })
    na=[{"property_id":k,"reason":v} for k,v in sorted({**NOT_YET, **PENDING}.items())]
    hooks_commits=['b8a28ca', '2d4be83']
    m={
      "version":1,
      "setup_cmd":"./check build",
      "hooks":{
        "guard":"--cfg jammdb_verif",
        "enable":"the shuttle checks (C04, C09, C13 and the threaded part of C10) build /repo's sources through a generated shadow manifest (adds shuttle and the shim crate /verif/sim-sh/shim) with RUSTFLAGS=--cfg jammdb_verif: src/sync.rs then takes Mutex / RwLock from the shim (shuttle's mutex; a reader-writer lock on shuttle primitives whose priority policy the simulator picks per execution); all other checks build /repo unmodified",
        "baseline_off_cmd":"cd /repo && cargo test --workspace --no-fail-fast --offline",
        "source_commits":hooks_commits,
        "add_only": False,
      },
      "engines":[
        {"name":"jsim","path":"/verif/sim","serves_properties":[k for k in sorted(CLAIMED.keys()) if k not in ("C04","C09","C13")],"kind_free_text":"deterministic simulator on /repo unmodified: libc-level I/O seam (SimOS), reference model, independent file checker, seeded swarm generator, crash / fault / corruption engines, shrinker, replay; also the orchestrator of every check"},
        {"name":"jsim-sh","path":"/verif/sim-sh","serves_properties":["C04","C09","C10","C13"],"kind_free_text":"the same seam and harness with /repo built through a generated shadow manifest and --cfg jammdb_verif (shuttle locks): seeded thread / process schedules, recording and list-replay schedulers, schedule minimisation"},
      ],
      "checks":checks,
      "not_applicable":na,
      "notes":"See DESIGN.md. Exit codes: 0 held, 1 violation (VIOLATION line + replay file), 2 harness error.",
    }
    json.dump(m,open('/verif/MANIFEST.json','w'),indent=1)
main()
