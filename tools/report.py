#!/usr/bin/env python3
"""Prints the markdown tables of DESIGN.md section 15 from seeded/*/meta.json and
out/mutants-run.json (+ out/mutants-suite.json)."""
import json, os, glob
print("| id | breaks | needs, in order to manifest | caught by (quick tier) | first report |")
print("|----|--------|------------------------------|------------------------|--------------|")
for d in sorted(glob.glob('/verif/seeded/*/meta.json')):
    m = json.load(open(d))
    first = ""
    for c in m["caught_by"][:1]:
        first = m["results"][c]["first"].replace("|", "/")[:110]
    print(f"| {m['id']} | {m['breaks_property']} | {m['needs_to_manifest'][:200]} | {', '.join(m['caught_by']) or '**nothing**'} | {first} |")
print()
suite = {}
if os.path.exists('/verif/out/mutants-suite.json'):
    for r in json.load(open('/verif/out/mutants-suite.json')):
        suite[r['mutant']] = r.get('suite_passes')
if os.path.exists('/verif/out/mutants-run.json'):
    print("| mutant | what it does | pinned suite | expected | caught by | seconds to first report |")
    print("|--------|--------------|--------------|----------|-----------|-------------------------|")
    for r in json.load(open('/verif/out/mutants-run.json')):
        if 'error' in r:
            print(f"| {r['mutant']} | anchor problem: {r['error']} | | | | |")
            continue
        secs = ", ".join(f"{p}: {r['detail'][p]['seconds']}" for p in r['caught_by'])
        sp = suite.get(r['mutant'])
        print(f"| {r['mutant']} | {r['note']} | {'passes' if sp else 'fails' if sp is not None else '?'} | {', '.join(r['expected'])} | {', '.join(r['caught_by']) or '**nothing**'} | {secs} |")
