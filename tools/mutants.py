#!/usr/bin/env python3
"""Sensitivity proof: apply one property-breaking edit to /repo, run the quick check(s) that
should notice, revert. Each mutant compiles and passes the pinned test-suite (verified with
--suite). Usage:
    tools/mutants.py list
    tools/mutants.py run [--par N] [name ...]      # default: all; writes out/mutants-run.json
    tools/mutants.py suite [--par N] [name ...]    # run the repository's own tests against each mutant
Each mutant is applied to a scratch worktree of /repo (tools/scratch.py); /repo is never touched."""
import concurrent.futures, json, os, sys
sys.path.insert(0, os.path.dirname(os.path.abspath(__file__)))
from scratch import Worktree

REPO = "/repo"
VERIF = "/verif"

# (name, file, old, new, [properties expected to catch it], note)
M = [
 ("drop-final-sync", "src/tx.rs",
  "                    .and_then(|_| file.flush())\n                    .and_then(|_| file.sync_all());",
  "                    .and_then(|_| file.flush());",
  ["C02"], "commit returns before the meta page is durable"),
 ("drop-data-sync", "src/tx.rs",
  "            file.flush()?;\n            file.sync_all()?;\n        }\n        if self.db.inner.flags.strict_mode {",
  "            file.flush()?;\n        }\n        if self.db.inner.flags.strict_mode {",
  ["C02"], "no barrier between data pages and the meta page"),
 ("checksum-skips-freelist-page", "src/meta.rs",
  "        hasher.write(&self.num_pages.to_be_bytes());\n        hasher.write(&self.freelist_page.to_be_bytes());\n        hasher.write(&self.tx_id.to_be_bytes());\n\n        hasher.finish()",
  "        hasher.write(&self.num_pages.to_be_bytes());\n        hasher.write(&self.tx_id.to_be_bytes());\n\n        hasher.finish()",
  ["C12", "C15"], "a header field is no longer covered by the checksum"),
 ("prefer-lower-txid", "src/db.rs",
  "                        if meta1.tx_id > meta2.tx_id {",
  "                        if meta1.tx_id < meta2.tx_id {",
  ["C01", "C02", "C12"], "the older meta page wins"),
 ("release-ignores-readers", "src/tx.rs",
  "                if open_ro_txs.len() > 0 {\n                    freelist.release(open_ro_txs[0]);\n                } else {\n                    freelist.release(meta.tx_id);\n                }",
  "                freelist.release(meta.tx_id);",
  ["C03", "C04"], "pending pages are released although a reader still needs them"),
 ("release-uses-newest-reader", "src/tx.rs",
  "                    freelist.release(open_ro_txs[0]);",
  "                    freelist.release(open_ro_txs[open_ro_txs.len() - 1]);",
  ["C03"], "the newest instead of the oldest open reader bounds the release"),
 ("reader-registers-late", "src/tx.rs",
  "        let mut meta;\n        {\n            let mut open_ro_txs = db.inner.open_ro_txs.lock().unwrap();\n            // A reader has to pick its meta page and register itself in one step. If a writer\n            // could begin in between, it would not know about this reader and could release,\n            // and a later writer reuse, pages of the snapshot the reader is about to use.\n            meta = db.inner.meta()?;\n",
  "        let mut meta = db.inner.meta()?;\n        {\n            let mut open_ro_txs = db.inner.open_ro_txs.lock().unwrap();\n",
  ["C04"], "the reader chooses its meta page before it registers (the repaired race)"),
 ("resize-lock-order", "src/db.rs",
  "        let _lock = self.mmap_lock.write()?;\n        let mut data = self.data.lock()?;",
  "        let mut data = self.data.lock()?;\n        let _lock = self.mmap_lock.write()?;",
  ["C09", "C04"], "growth takes the map mutex before the map write lock: lock-order inversion with readers"),
 ("merge-forgets-to-free", "src/bucket.rs",
  "                        // free the child's page and mark it as deleted\n                        node.free_page(tx_freelist);\n                        node.deleted = true;",
  "                        // free the child's page and mark it as deleted\n                        node.deleted = true;",
  ["C05", "C10"], "a merged node's old page is never freed"),
 ("allocate-removes-first-page-only", "src/freelist.rs",
  "            for id in found..found + (num_pages as u64) {\n                self.free_pages.remove(&id);\n            }",
  "            self.free_pages.remove(&found);",
  ["C05", "C01"], "a multi-page run stays partly on the free list"),
 ("never-release-pending", "src/freelist.rs",
  "            if other_tx_id < tx_id {",
  "            if other_tx_id < tx_id && other_tx_id == u64::MAX {",
  ["C10"], "pending pages are never released while the handle is open"),
 ("persist-drops-pending", "src/freelist.rs",
  "        for (_, pages) in self.pending_pages.iter() {\n            let mut pages = pages.to_vec();\n            page_ids.append(&mut pages);\n        }",
  "",
  ["C05", "C10"], "pending pages are not written to the free-list page: lost on reopen"),
 ("ignore-sync-error", "src/tx.rs",
  "            file.flush()?;\n            file.sync_all()?;\n        }\n        if self.db.inner.flags.strict_mode {",
  "            file.flush()?;\n            let _ = file.sync_all();\n        }\n        if self.db.inner.flags.strict_mode {",
  ["C11"], "a failing sync is swallowed"),
 ("unwrap-a-write", "src/tx.rs",
  "                    file.write_all(buf)?;",
  "                    file.write_all(buf).unwrap();",
  ["C11"], "an I/O error panics instead of being returned"),
 ("stale-freelist-after-late-failure", "src/tx.rs",
  "                if result.is_ok() || self.db.inner.meta()?.tx_id == self.meta.tx_id {",
  "                if result.is_ok() {",
  ["C11"], "the repaired defect: freelist not published when commit fails after the meta page is visible"),
 ("no-file-lock", "src/db.rs",
  "        let mut file = open_file(path, true, self.flags.direct_writes)?;\n        file.lock_exclusive()?;",
  "        let mut file = open_file(path, true, self.flags.direct_writes)?;",
  ["C13"], "initialisation happens without the lock (the lock in DBInner::open remains)"),
 ("shared-file-lock", "src/db.rs",
  "    pub(crate) fn open(file: File, pagesize: u64, flags: DBFlags) -> Result<DBInner> {\n        file.lock_exclusive()?;",
  "    pub(crate) fn open(file: File, pagesize: u64, flags: DBFlags) -> Result<DBInner> {\n        file.unlock()?;\n        file.lock_shared()?;",
  ["C13"], "openers share the lock"),
 ("magic-changed", "src/db.rs",
  "const MAGIC_VALUE: u32 = 0x00AB_CDEF;",
  "const MAGIC_VALUE: u32 = 0x00AB_CDEE;",
  ["C15", "C05"], "new files carry a different magic number"),
 ("leaf-element-field-order", "src/page.rs",
  "    pub(crate) node_type: NodeType,\n    pos: u64,\n    key_size: u64,\n    value_size: u64,",
  "    pub(crate) node_type: NodeType,\n    key_size: u64,\n    pos: u64,\n    value_size: u64,",
  ["C15"], "on-disk leaf element layout changed"),
 ("seek-lands-after", "src/page_node.rs",
  "                i = i.saturating_sub(1);\n                (i, false)",
  "                (i, false)",
  ["C01", "C08"], "binary search returns the slot after an absent key (a legal seek neighbour, but puts and gets go to the wrong child)"),
 ("range-end-inclusive", "src/cursor.rs",
  "                Bound::Excluded(e) => {\n                    if data.key() < *e {",
  "                Bound::Excluded(e) => {\n                    if data.key() <= *e {",
  ["C08"], "excluded end bound treated as included"),
 ("kv-filter-stops-at-bucket", "src/cursor.rs",
  "        for data in self.i.by_ref() {\n            if let Data::KeyValue(kv) = data {\n                return Some(kv);\n            }\n        }\n        None",
  "        let mut skipped = 0;\n        for data in self.i.by_ref() {\n            if let Data::KeyValue(kv) = data {\n                return Some(kv);\n            }\n            skipped += 1;\n            if skipped >= 2 {\n                break;\n            }\n        }\n        None",
  ["C08"], "kv_pairs gives up after two consecutive nested buckets"),
 ("delete-skips-readonly-check", "src/bucket.rs",
  "    pub fn delete<T: AsRef<[u8]>>(&self, key: T) -> Result<KVPair> {\n        if !self.writable {\n            return Err(Error::ReadOnlyTx);\n        }",
  "    pub fn delete<T: AsRef<[u8]>>(&self, key: T) -> Result<KVPair> {",
  ["C06"], "delete works in a read-only transaction"),
 ("bucket-create-no-counter", "src/bucket.rs",
  "                if should_create {\n                    self.meta.next_int += 1;",
  "                if should_create {",
  ["C01"], "creating a nested bucket no longer bumps next_int"),
 ("in-tx-get-reads-page", "src/bucket.rs",
  "                if let Some(node_id) = self.page_node_ids.get(&page) {\n                    PageNode::Node(self.nodes[*node_id as usize].clone())\n                } else {\n                    PageNode::Page(self.pages.page(page))\n                }",
  "                match self.page_node_ids.get(&page) {\n                    Some(node_id) if self.nodes[*node_id as usize].borrow().data.len() > 0 => {\n                        PageNode::Node(self.nodes[*node_id as usize].clone())\n                    }\n                    _ => PageNode::Page(self.pages.page(page)),\n                }",
  ["C07"], "a leaf emptied by the transaction reads through to the committed page"),
 ("odd-pagesize-accepted", "src/db.rs",
  "        if pagesize % 8 != 0 {\n            panic!(\"Pagesize must be a multiple of 8 bytes\");\n        }",
  "",
  ["C16"], "the repaired defect: page sizes that are not a multiple of 8"),
 ("meta-type-asserted", "src/db.rs",
  "                let meta1 = (page1.page_type == Page::TYPE_META).then(|| page1.$func());",
  "                let meta1 = Some(page1.$func());",
  ["C12"], "the repaired defect: page-type byte asserted, not validated"),
 ("rollback-publishes-freelist", "src/tx.rs",
  "impl<'tx> Drop for TxInner<'tx> {\n    fn drop(&mut self) {\n        if !self.lock.writable() {",
  "impl<'tx> Drop for TxInner<'tx> {\n    fn drop(&mut self) {\n        if self.lock.writable() {\n            if let Ok(mut l) = self.db.inner.freelist.lock() {\n                *l = self.freelist.borrow().inner.clone();\n            }\n        }\n        if !self.lock.writable() {",
  ["C06", "C05", "C10"], "a dropped write transaction leaks its free-list changes into the shared free list"),
 ("run-length-floor-at-5000", "src/freelist.rs",
  "            (bytes / self.meta.pagesize) + 1\n        };",
  "            (bytes / self.meta.pagesize) + (self.meta.pagesize != 5000 || bytes > 3 * self.meta.pagesize) as u64\n        };",
  ["C16"], "at page size 5000 a node between one and three pages long gets one page too few"),
]


def apply(m, root):
    name, f, old, new, props, note = m
    p = os.path.join(root, f)
    s = open(p).read()
    if s.count(old) != 1:
        return f"anchor matches {s.count(old)} times"
    open(p, "w").write(s.replace(old, new))
    return None


def main():
    mode = sys.argv[1] if len(sys.argv) > 1 else "list"
    args = sys.argv[2:]
    par = 1
    if args[:1] == ["--par"]:
        par, args = int(args[1]), args[2:]
    todo = [m for m in M if not args or m[0] in args]
    if mode == "list":
        for m in M:
            print(f"{m[0]:36} {','.join(m[4]):12} {m[5]}")
        return
    jobs = max(2, 16 // par)

    def one(m):
        name, f, old, new, props, note = m
        with Worktree("mutant") as wt:
            err = apply(m, wt.path)
            if err:
                return {"mutant": name, "error": err}
            if mode == "suite":
                ok, out = wt.suite_passes()
                return {"mutant": name, "suite_passes": ok, "out": out}
            caught = {p: wt.check(p, jobs=jobs) for p in props}
            hit = [p for p in props if caught[p]["violations"] > 0]
            return {"mutant": name, "note": note, "expected": props, "caught_by": hit, "detail": caught}

    results = []
    with concurrent.futures.ThreadPoolExecutor(par) as ex:
        for r in ex.map(one, todo):
            results.append(r)
            if "error" in r:
                print(f"{r['mutant']}: ANCHOR PROBLEM {r['error']}", flush=True)
            elif mode == "suite":
                print(f"{r['mutant']}: suite {'passes' if r['suite_passes'] else 'FAILS'}", flush=True)
            else:
                print(f"{r['mutant']}: caught by {r['caught_by'] or 'NOTHING'}  {json.dumps(r['detail'])[:300]}", flush=True)
    os.makedirs(f"{VERIF}/out", exist_ok=True)
    out = f"{VERIF}/out/mutants-{mode}.json"
    json.dump(results, open(out, "w"), indent=1)
    print("written", out)


main()
