#!/usr/bin/env python3
"""Rewrites the table of DESIGN.md section 15.1 from seeded/*/meta.json (run after tools/seeded.py run)."""
import json, glob, re
def key(p):
    m = re.search(r'/(C\d+)-(\d+)/', p)
    return (m.group(1), int(m.group(2)))
rows = ["| id | breaks | needs, in order to manifest | caught by (quick tier) | first report |",
        "|----|--------|------------------------------|------------------------|--------------|"]
for d in sorted(glob.glob('/verif/seeded/*/meta.json'), key=key):
    m = json.load(open(d))
    first = ""
    for c in m["caught_by"][:1]:
        first = m["results"][c]["first"].replace("|", "/").replace("\n", " ")[:110]
    needs = m['needs_to_manifest'].replace("|", "/").replace("\n", " ")[:200]
    rows.append(f"| {m['id']} | {m['breaks_property']} | {needs} | {', '.join(m['caught_by']) or '**nothing**'} | {first} |")
s = open('/verif/DESIGN.md').read()
a = s.index("| id | breaks | needs, in order to manifest |")
b = s.index("\n\n", a)
s = s[:a] + "\n".join(rows) + s[b:]
open('/verif/DESIGN.md', 'w').write(s)
print(len(rows) - 2, "rows")
