#!/usr/bin/env python3
"""Confirm and file one externally produced property-breaking change (from a sub-agent that
saw only the property text and a scratch worktree), then run our checks against it.

    tools/seeded.py add <id> <property> <patch.diff> <demo.rs> "<needs>" [check ...]
    tools/seeded.py run [<id> ...]      # re-run the registered checks against kept changes

Confirmation is done in a scratch worktree of /repo under /dev/shm (removed afterwards):
  1. the patch applies and the crate builds,
  2. the repository's own suite passes with the patch,
  3. the demonstration fails with the patch and passes without it.
Then the listed checks run against a second scratch worktree with the patch applied
(VERIF_REPO; the simulators are built privately for it). /repo itself is never touched."""
import json, os, shutil, subprocess, sys, time

REPO = "/repo"
VERIF = "/verif"


def sh(cmd, timeout=3600, cwd=None):
    return subprocess.run(cmd, shell=True, capture_output=True, text=True, timeout=timeout, cwd=cwd)


def confirm(patch, demo):
    wt = f"/dev/shm/seeded-wt-{os.getpid()}"
    sh(f"git -C {REPO} worktree remove --force {wt}")
    r = sh(f"git -C {REPO} worktree add -q --detach {wt} HEAD")
    if r.returncode != 0:
        return {"error": "worktree: " + r.stderr}
    out = {}
    try:
        name = "seeded_demo_check"
        shutil.copy(demo, f"{wt}/tests/{name}.rs")
        # clean tree: demo passes
        r = sh(f"timeout 1500 cargo test --offline --test {name} 2>&1 | tail -15", cwd=wt)
        out["demo_passes_on_clean_tree"] = "test result: ok" in r.stdout
        out["clean_out"] = r.stdout[-300:]
        r = sh(f"git apply {patch}", cwd=wt)
        out["patch_applies"] = r.returncode == 0
        if not out["patch_applies"]:
            out["apply_err"] = r.stderr[-300:]
            return out
        r = sh(f"timeout 1500 cargo test --offline --test {name} 2>&1 | tail -15", cwd=wt)
        out["demo_fails_with_change"] = "test result: FAILED" in r.stdout or "panicked" in r.stdout or "error: test failed" in r.stdout
        out["changed_out"] = r.stdout[-300:]
        os.remove(f"{wt}/tests/{name}.rs")
        r = sh("timeout 1500 cargo test --offline --workspace --no-fail-fast 2>&1 | grep -E '^test result|FAILED|^error' | head -20", cwd=wt)
        out["suite_passes_with_change"] = "FAILED" not in r.stdout and "error" not in r.stdout and r.stdout.count("test result: ok") >= 7
        out["suite_out"] = r.stdout[-400:]
    finally:
        sh(f"git -C {REPO} worktree remove --force {wt}")
        shutil.rmtree(wt, ignore_errors=True)
    return out


def run_checks(patch, checks):
    """Checks run against a scratch worktree of /repo with the patch applied (VERIF_REPO), so
    /repo itself is never touched and several changes can be examined side by side."""
    wt = f"/dev/shm/seeded-run-{os.getpid()}"
    sh(f"git -C {REPO} worktree remove --force {wt}")
    r = sh(f"git -C {REPO} worktree add -q --detach {wt} HEAD")
    if r.returncode != 0:
        return {"error": "worktree: " + r.stderr}
    res = {}
    env = f"VERIF_REPO={wt} VERIF_EVIDENCE_DIR={VERIF}/out/evidence-seeded-{os.getpid()}"
    try:
        r = sh(f"git apply {patch}", cwd=wt)
        if r.returncode != 0:
            return {"error": "apply: " + r.stderr}
        for c in checks:
            t0 = time.time()
            r = sh(f"{env} timeout 3000 ./check {c} quick 2>&1 | tail -40", cwd=VERIF)
            lines = r.stdout.splitlines()
            viol = [i for i, l in enumerate(lines) if l.startswith("VIOLATION")]
            if not viol and not any(" runs (" in l for l in lines):
                # the check itself did not run (build failure, harness error): not a verdict
                res[c] = {"caught": False, "violations": 0, "harness_error": True, "seconds": round(time.time() - t0, 1), "first": "CHECK DID NOT RUN: " + " | ".join(lines[-3:])[:300]}
                continue
            res[c] = {
                "caught": len(viol) > 0,
                "violations": len(viol),
                "harness_error": any("HARNESS-ERROR" in l for l in lines),
                "seconds": round(time.time() - t0, 1),
                "first": (lines[viol[0] + 1].strip()[:300] if viol and viol[0] + 1 < len(lines) else ""),
            }
    finally:
        sh(f"{env} ./check drop-alt", cwd=VERIF)
        sh(f"rm -rf {VERIF}/out/evidence-seeded-{os.getpid()}")
        sh(f"git -C {REPO} worktree remove --force {wt}")
        shutil.rmtree(wt, ignore_errors=True)
    return res


def main():
    mode = sys.argv[1]
    if mode == "add":
        sid, prop, patch, demo, needs = sys.argv[2:7]
        checks = sys.argv[7:] or [prop]
        d = f"{VERIF}/seeded/{sid}"
        os.makedirs(d, exist_ok=True)
        shutil.copy(patch, f"{d}/patch.diff")
        shutil.copy(demo, f"{d}/demo.rs")
        conf = confirm(f"{d}/patch.diff", f"{d}/demo.rs")
        ok = conf.get("patch_applies") and conf.get("suite_passes_with_change") and conf.get("demo_fails_with_change") and conf.get("demo_passes_on_clean_tree")
        print(sid, "confirmation:", json.dumps({k: v for k, v in conf.items() if not k.endswith("out")}))
        if not ok:
            print(sid, "NOT KEPT (confirmation failed)")
            json.dump({"id": sid, "property": prop, "kept": False, "confirmation": conf}, open(f"{d}/rejected.json", "w"), indent=1)
            return
        res = run_checks(f"{d}/patch.diff", checks)
        meta = {
            "id": sid, "breaks_property": prop, "needs_to_manifest": needs,
            "origin": "sub-agent given only the property text and a scratch worktree",
            "confirmed": {k: v for k, v in conf.items() if not k.endswith("out")},
            "ran": [f"./check {c} quick (against a scratch worktree of /repo with the patch applied)" for c in checks],
            "results": res,
            "caught_by": [c for c in checks if res.get(c, {}).get("caught")],
        }
        json.dump(meta, open(f"{d}/meta.json", "w"), indent=1)
        print(sid, "caught by", meta["caught_by"] or "NOTHING", json.dumps(res)[:600])
    elif mode == "addall":
        # tools/seeded.py addall <dir> <par> <id> [<id> ...]: files <dir>/<id>.diff .rs .txt
        import concurrent.futures
        d, par, ids = sys.argv[2], int(sys.argv[3]), sys.argv[4:]
        jobs = max(2, 16 // par)
        def one(sid):
            needs = open(f"{d}/{sid}.txt").read().strip().replace("\n", " ")
            env = dict(os.environ, VERIF_JOBS=str(jobs))
            r = subprocess.run([sys.argv[0], "add", sid, sid.split("-")[0], f"{d}/{sid}.diff", f"{d}/{sid}.rs", needs],
                               capture_output=True, text=True, env=env)
            return sid, r.stdout + r.stderr
        with concurrent.futures.ThreadPoolExecutor(par) as ex:
            for sid, out in ex.map(one, ids):
                print(out.strip(), flush=True)
    elif mode == "run":
        # tools/seeded.py run [--par N] [<id>[+Cxx...] ...]: re-run the registered checks (plus
        # the ones appended with +) against kept changes, N changes side by side
        import concurrent.futures
        args = sys.argv[2:]
        par = 1
        if args[:1] == ["--par"]:
            par, args = int(args[1]), args[2:]
        specs = args or sorted(os.listdir(f"{VERIF}/seeded"))
        os.environ.setdefault("VERIF_JOBS", str(max(2, 16 // par)))
        def one(spec):
            sid, *extra = spec.split("+")
            d = f"{VERIF}/seeded/{sid}"
            if not os.path.exists(f"{d}/meta.json"):
                return f"{sid}: no meta.json"
            meta = json.load(open(f"{d}/meta.json"))
            checks = [x.split()[1] for x in meta["ran"]]
            checks += [c for c in extra if c not in checks]
            # each change needs its own scratch names: run in a child so that getpid() differs
            r = subprocess.run([sys.executable, "-c", f"import sys, json; sys.argv=['seeded.py','noop']; exec(open({sys.argv[0]!r}).read().replace('\\nmain()','')); print(json.dumps(run_checks({d + '/patch.diff'!r}, {checks!r})))"],
                               capture_output=True, text=True)
            try:
                res = json.loads(r.stdout.strip().splitlines()[-1])
            except Exception:
                return f"{sid}: run failed: {r.stdout[-300:]} {r.stderr[-300:]}"
            meta["ran"] = [f"./check {c} quick (against a scratch worktree of /repo with the patch applied)" for c in checks]
            meta["results"] = res
            meta["caught_by"] = [c for c in checks if res.get(c, {}).get("caught")]
            json.dump(meta, open(f"{d}/meta.json", "w"), indent=1)
            return f"{sid} caught by {meta['caught_by'] or 'NOTHING'}"
        with concurrent.futures.ThreadPoolExecutor(par) as ex:
            for out in ex.map(one, specs):
                print(out, flush=True)

main()
