#!/bin/bash
# Exercises the thorough-tier code paths (other page sizes, full word enumerations, all 108
# configurations, long runs) with a small number of runs each; evidence goes to out/.
cd "$(dirname "$0")/.."
rc=0
run() { # prop runs
  out=$(VERIF_RUNS=$2 VERIF_EVIDENCE_DIR=$PWD/out/ev-thorough-smoke ./check $1 thorough 2>&1); c=$?
  echo "$1 rc=$c $(echo "$out" | grep -m1 'runs (' | cut -c1-110)"
  if [ $c -ne 0 ]; then rc=1; echo "$out" | grep -A2 "VIOLATION\|HARNESS" | head -8; fi
}
run C01 3000; run C05 3000; run C06 2000; run C07 1500; run C08 600; run C03 2000
run C02 120; run C11 24; run C12 40; run C10 48; run C15 600; run C16 4
run C04 6000; run C09 3000; run C13 6000
exit $rc
