#!/bin/bash
# tools/seed_sweep.sh <first> <last> [tier]: every check on the unchanged tree under other VERIF_SEED
# values (silence proof: a check that alarms here is a false-alarm generator). Evidence goes to
# out/, never to evidence/. Prints one line per (seed, property); exit 1 if anything alarmed.
cd "$(dirname "$0")/.."
rc=0
for s in $(seq $1 $2); do
  for p in C01 C02 C03 C04 C05 C06 C07 C08 C09 C10 C11 C12 C13 C15 C16; do
    out=$(VERIF_SEED=$s VERIF_EVIDENCE_DIR=$PWD/out/ev-sweep ./check $p ${3:-quick} 2>&1); c=$?
    echo "seed=$s $p rc=$c $(echo "$out" | grep -m1 "runs (" | cut -c1-100)"
    if [ $c -ne 0 ]; then rc=1; echo "$out" | grep -A2 "VIOLATION\|HARNESS" | head -12; fi
  done
done
exit $rc
