#!/bin/bash
# Runs every quick check on the unchanged tree (default seed) and validates the evidence files.
cd /verif
if [ -n "$(git -C /repo status --porcelain)" ]; then echo "/repo is not clean" >&2; exit 2; fi
rc=0
for p in C01 C02 C03 C04 C05 C06 C07 C08 C09 C10 C11 C12 C13 C15 C16; do
  timeout 1500 ./check $p ${1:-quick} | head -3 | cut -c1-200 || rc=1
done
python3-vt - <<'PY'
import json, jsonschema, glob, sys
sch = json.load(open('/root/.vp/EVIDENCE.schema.json'))
m = json.load(open('/verif/MANIFEST.json'))
jsonschema.validate(m, json.load(open('/root/.vp/MANIFEST.schema.json')))
bad = 0
for c in m['checks']:
    try:
        e = json.load(open(c['evidence_file']))
        jsonschema.validate(e, sch)
        assert e['property_id'] == c['property_id'] and e['level'] == c['level_claimed']['category'], 'id/level mismatch'
        assert e['violations'] == 0, 'violations in evidence'
        print(c['property_id'], 'ok', e['tier'], e['coverage']['evaluations'], e['coverage']['distinct_nontrivial'])
    except Exception as ex:
        bad += 1
        print(c['property_id'], 'INVALID', str(ex)[:200])
sys.exit(1 if bad else 0)
PY
