//! The lock types jammdb uses when it is built with `--cfg jammdb_verif`: shuttle's `Mutex`, and
//! a reader-writer lock built from shuttle's `Mutex` and `Condvar` whose *priority policy* is
//! chosen by the simulator per execution.
//!
//! std's documentation leaves the policy of `RwLock` unspecified; the futex implementation
//! used on Linux makes a reader that arrives while a writer is waiting queue behind that
//! writer, others let it in. shuttle's own `RwLock` implements only the second behaviour, so a
//! deadlock that needs the first (reader A open, a writer queued, reader B arrives holding
//! something A needs to finish) is invisible to it. With `set_writer_preference(true)` this lock
//! behaves like the Linux one; with `false` like shuttle's. Every acquire, release and wait is a
//! scheduling point because it goes through shuttle's primitives.
use shuttle::sync::Condvar;
pub use shuttle::sync::{Mutex, MutexGuard};
use std::cell::UnsafeCell;
use std::ops::{Deref, DerefMut};
use std::sync::atomic::{AtomicBool, AtomicU64, Ordering};
use std::sync::LockResult;

static WRITER_PREFERENCE: AtomicBool = AtomicBool::new(false);
/// how often a reader had to queue behind a waiting writer (evidence)
static READERS_QUEUED_BEHIND_WRITER: AtomicU64 = AtomicU64::new(0);

pub fn set_writer_preference(on: bool) {
    WRITER_PREFERENCE.store(on, Ordering::SeqCst);
}

pub fn readers_queued_behind_writer() -> u64 {
    READERS_QUEUED_BEHIND_WRITER.load(Ordering::SeqCst)
}

struct State {
    readers: usize,
    writer: bool,
    writers_waiting: usize,
}

pub struct RwLock<T: ?Sized> {
    state: Mutex<State>,
    cv: Condvar,
    data: UnsafeCell<T>,
}

unsafe impl<T: ?Sized + Send> Send for RwLock<T> {}
unsafe impl<T: ?Sized + Send + Sync> Sync for RwLock<T> {}

impl<T> RwLock<T> {
    pub fn new(value: T) -> Self {
        RwLock { state: Mutex::new(State { readers: 0, writer: false, writers_waiting: 0 }), cv: Condvar::new(), data: UnsafeCell::new(value) }
    }
}

impl<T: ?Sized> RwLock<T> {
    pub fn read(&self) -> LockResult<RwLockReadGuard<'_, T>> {
        let mut s = self.state.lock().unwrap_or_else(|e| e.into_inner());
        let mut counted = false;
        while s.writer || (WRITER_PREFERENCE.load(Ordering::SeqCst) && s.writers_waiting > 0) {
            if !s.writer && !counted {
                counted = true;
                READERS_QUEUED_BEHIND_WRITER.fetch_add(1, Ordering::SeqCst);
            }
            s = self.cv.wait(s).unwrap_or_else(|e| e.into_inner());
        }
        s.readers += 1;
        drop(s);
        Ok(RwLockReadGuard { lock: self })
    }

    pub fn write(&self) -> LockResult<RwLockWriteGuard<'_, T>> {
        let mut s = self.state.lock().unwrap_or_else(|e| e.into_inner());
        s.writers_waiting += 1;
        while s.writer || s.readers > 0 {
            s = self.cv.wait(s).unwrap_or_else(|e| e.into_inner());
        }
        s.writers_waiting -= 1;
        s.writer = true;
        drop(s);
        Ok(RwLockWriteGuard { lock: self })
    }
}

pub struct RwLockReadGuard<'a, T: ?Sized> {
    lock: &'a RwLock<T>,
}

pub struct RwLockWriteGuard<'a, T: ?Sized> {
    lock: &'a RwLock<T>,
}

impl<T: ?Sized> Deref for RwLockReadGuard<'_, T> {
    type Target = T;
    fn deref(&self) -> &T {
        unsafe { &*self.lock.data.get() }
    }
}

impl<T: ?Sized> Deref for RwLockWriteGuard<'_, T> {
    type Target = T;
    fn deref(&self) -> &T {
        unsafe { &*self.lock.data.get() }
    }
}

impl<T: ?Sized> DerefMut for RwLockWriteGuard<'_, T> {
    fn deref_mut(&mut self) -> &mut T {
        unsafe { &mut *self.lock.data.get() }
    }
}

impl<T: ?Sized> Drop for RwLockReadGuard<'_, T> {
    fn drop(&mut self) {
        let mut s = self.lock.state.lock().unwrap_or_else(|e| e.into_inner());
        s.readers -= 1;
        let wake = s.readers == 0;
        drop(s);
        if wake {
            self.lock.cv.notify_all();
        }
    }
}

impl<T: ?Sized> Drop for RwLockWriteGuard<'_, T> {
    fn drop(&mut self) {
        let mut s = self.lock.state.lock().unwrap_or_else(|e| e.into_inner());
        s.writer = false;
        drop(s);
        self.lock.cv.notify_all();
    }
}
