//! SHUTTLE engines: real jammdb threads (C04, C09) and simulated opener processes (C13) on
//! shuttle's scheduler. Scheduling points: every operation on jammdb's five locks (shuttle
//! primitives through the sync shim) and every tracked SimOS call.
use crate::case::{Case, Verdict};
use crate::rng::{mix, Fnv, Rng};
use crate::sched::{BoundedPreempt, Log, Recording, ReplayList};
use crate::seq::{catch, Violation};
use crate::simos;
use jammdb::{Data, OpenOptions, DB};
use serde_json::{json, Value};
use shuttle::scheduler::{PctScheduler, RandomScheduler};
use shuttle::{Config, MaxSteps, Runner};
use std::collections::BTreeMap;
use std::sync::atomic::{AtomicBool, AtomicU64, Ordering};
use std::sync::{Arc, Mutex};

static VIOL: Mutex<Option<(String, String, String)>> = Mutex::new(None);
static PROBES: Mutex<BTreeMap<String, u64>> = Mutex::new(BTreeMap::new());

fn report(oracle: &str, site: &str, detail: String) {
    let mut g = VIOL.lock().unwrap_or_else(|e| e.into_inner());
    if g.is_none() {
        *g = Some((oracle.to_string(), site.to_string(), detail));
    }
}

fn probe(name: &str) {
    *PROBES.lock().unwrap_or_else(|e| e.into_inner()).entry(name.to_string()).or_default() += 1;
}

fn yield_point() {
    // a plain context switch; yield_now would lower the caller's priority under PCT
    shuttle::thread::sleep(std::time::Duration::from_nanos(0));
}

fn spin_point() {
    // waiting for a simulated file lock: a yield request, so that priority schedulers run
    // the holder instead of spinning on the waiter
    shuttle::thread::yield_now();
}

pub fn scratch_root() -> String {
    format!("/dev/shm/jammdb-verif.{}", std::process::id())
}

fn fresh_dir(tag: &str) -> String {
    let d = format!("{}/{}", scratch_root(), tag);
    simos::bypass(|| {
        let _ = std::fs::remove_dir_all(&d);
        std::fs::create_dir_all(&d).expect("scratch dir");
    });
    d
}

// ---------------------------------------------------------------------------------------------
// parameters

#[derive(Clone, Debug)]
pub struct Params {
    pub keys: u32,
    pub commits: u32,
    pub readers: u32,
    pub writers: u32,
    pub rounds: u32,
    pub rereads: u32,
    pub grow: bool,
    pub openers: u32,
    pub preexisting: bool,
    pub hold: bool,
    /// C13: the opener clones its handle and drops the clone while it keeps using the database
    pub clone_drop: bool,
    /// C13: a blocked flock is interrupted by a signal after this many waits (0 = never)
    pub eintr_after: u32,
    /// the reader-writer lock queues new readers behind a waiting writer (the policy of the
    /// futex lock std uses on Linux) instead of letting them in (shuttle's own policy)
    pub wpref: bool,
    /// C13: the disk is full when the first opener tries to allocate the new file (its open
    /// fails, which is a legitimate outcome; the others must still be exclusive)
    pub init_fault: bool,
}

impl Params {
    pub fn draw(prop: &str, seed: u64) -> Params {
        let mut r = Rng::new(mix(seed, 0x5C3));
        let wpref = Rng::new(mix(seed, 0x5C5)).chance(1, 2);
        let mut p = match prop {
            "C04" => Params {
                keys: r.range(4, 14) as u32,
                // beyond the stated bound (two readers, four commits) in one run out of six
                commits: if r.chance(1, 6) { r.range(5, 7) as u32 } else { r.range(2, 4) as u32 },
                readers: if r.chance(1, 6) { 3 } else { r.range(1, 2) as u32 },
                // one run in four: the chain of commits comes from two writer threads
                writers: if r.chance(1, 4) { 2 } else { 1 },
                rounds: r.range(1, 2) as u32,
                rereads: r.range(1, 3) as u32,
                grow: r.chance(1, 8),
                openers: 0,
                preexisting: true,
                hold: false,
                clone_drop: false,
                eintr_after: 0,
                wpref: false,
                init_fault: false,
            },
            "C10" => Params {
                keys: r.range(6, 14) as u32,
                commits: r.range(2, 5) as u32,
                readers: r.range(2, 3) as u32,
                writers: 1,
                rounds: r.range(2, 5) as u32,
                rereads: 0,
                grow: false,
                openers: 0,
                preexisting: true,
                hold: false,
                clone_drop: false,
                eintr_after: 0,
                wpref: false,
                init_fault: false,
            },
            "C09" => Params {
                keys: 3,
                commits: r.range(1, 3) as u32,
                readers: r.range(1, 2) as u32,
                writers: r.range(2, 3) as u32,
                rounds: r.range(1, 3) as u32,
                rereads: 1,
                grow: r.chance(1, 3),
                openers: 0,
                preexisting: true,
                hold: r.chance(1, 4),
                clone_drop: false,
                eintr_after: 0,
                wpref: false,
                init_fault: false,
            },
            _ => Params {
                keys: 2,
                commits: 1,
                readers: 0,
                writers: 0,
                rounds: 1,
                rereads: 1,
                grow: r.chance(1, 2),
                openers: r.range(2, 3) as u32,
                preexisting: r.chance(1, 2),
                hold: r.chance(1, 2),
                clone_drop: r.chance(1, 2),
                eintr_after: if r.chance(1, 4) { r.range(1, 6) as u32 } else { 0 },
                wpref: false,
                init_fault: false,
            },
        };
        if prop == "C13" {
            p.init_fault = !p.preexisting && Rng::new(mix(seed, 0x5C6)).chance(1, 3);
        }
        p.wpref = wpref;
        p
    }
    pub fn to_json(&self) -> Value {
        json!({"keys": self.keys, "commits": self.commits, "readers": self.readers, "writers": self.writers, "rounds": self.rounds,
            "rereads": self.rereads, "grow": self.grow, "openers": self.openers, "preexisting": self.preexisting, "hold": self.hold,
            "clone_drop": self.clone_drop, "eintr_after": self.eintr_after, "wpref": self.wpref, "init_fault": self.init_fault})
    }
    pub fn from_json(v: &Value) -> Option<Params> {
        let u = |k: &str| v.get(k).and_then(|x| x.as_u64()).map(|x| x as u32);
        let b = |k: &str| v.get(k).and_then(|x| x.as_bool());
        Some(Params {
            keys: u("keys")?,
            commits: u("commits")?,
            readers: u("readers")?,
            writers: u("writers")?,
            rounds: u("rounds")?,
            rereads: u("rereads")?,
            grow: b("grow")?,
            openers: u("openers")?,
            preexisting: b("preexisting")?,
            hold: b("hold")?,
            clone_drop: b("clone_drop").unwrap_or(false),
            eintr_after: u("eintr_after").unwrap_or(0),
            wpref: b("wpref").unwrap_or(false),
            init_fault: b("init_fault").unwrap_or(false),
        })
    }
}

pub fn draw_case(prop: &str, seed: u64, tier: &str) -> Case {
    let mut c = Case::new(prop, "shuttle", seed);
    let mut r = Rng::new(mix(seed, 0x5C4));
    let kind = match r.below(10) {
        0..=4 => "random",
        5..=7 => "pct",
        _ => "bp",
    };
    let depth = r.range(1, 5);
    c.extra = json!({
        "params": Params::draw(prop, seed).to_json(),
        "sched": {"kind": kind, "seed": mix(seed, 7).to_string(), "depth": depth},
        "thorough": tier == "thorough",
    });
    c
}

// ---------------------------------------------------------------------------------------------
// C04 data layout: every version v writes a recognisable, self-describing state

fn key_of(k: u32) -> Vec<u8> {
    format!("key{:04}", k).into_bytes()
}

fn keyset(p: &Params, v: u32) -> Vec<u32> {
    let mut ks: Vec<u32> = (0..p.keys).collect();
    if v > 0 {
        ks.retain(|k| *k != v % p.keys);
        ks.push(p.keys + v);
    }
    ks
}

fn value_of(p: &Params, v: u32, k: u32) -> Vec<u8> {
    let len = 40 + ((v * 7 + k * 13) % 5) as usize * 90 + if p.grow && v == 2 && k == 0 { 9 << 20 } else { 0 };
    let mut out = Vec::with_capacity(len);
    out.extend_from_slice(&v.to_be_bytes());
    out.extend_from_slice(&k.to_be_bytes());
    while out.len() < len {
        out.push(((v * 31 + k * 17) as usize + out.len()) as u8);
    }
    out
}

/// Besides bucket "d", which every version rewrites completely, bucket "s" is rewritten only by
/// every second version: its pages belong to several consecutive snapshots and are freed by a
/// commit that is not the successor of the one that wrote them.
const SLOW_EVERY: u32 = 2;

fn slow_version(v: u32) -> u32 {
    v - v % SLOW_EVERY
}

fn slow_key(k: u32) -> Vec<u8> {
    format!("slow{:04}", k).into_bytes()
}

fn write_slow(tx: &jammdb::Tx, p: &Params, v: u32) -> Result<(), String> {
    if v % SLOW_EVERY != 0 {
        return Ok(());
    }
    let b = tx.get_or_create_bucket("s").map_err(|e| format!("bucket s: {}", e))?;
    for k in 0..p.keys {
        b.put(slow_key(k), value_of(p, v, 5000 + k)).map_err(|e| format!("put: {}", e))?;
    }
    Ok(())
}

fn check_slow(tx: &jammdb::Tx, p: &Params, v: u32) -> Result<(), String> {
    let b = tx.get_bucket("s").map_err(|e| format!("get_bucket(s): {}", e))?;
    let want = slow_version(v);
    let mut n = 0;
    for d in b.cursor() {
        match d {
            Data::KeyValue(kv) => {
                if n >= p.keys || kv.key() != slow_key(n).as_slice() {
                    return Err(format!("bucket s of version {} lists an unexpected key {:?}", v, String::from_utf8_lossy(kv.key())));
                }
                if kv.value() != value_of(p, want, 5000 + n).as_slice() {
                    let got = if kv.value().len() >= 4 { u32::from_be_bytes(kv.value()[0..4].try_into().unwrap()) } else { u32::MAX };
                    return Err(format!("one transaction sees version {} in bucket d but bucket s as of version {} (expected {})", v, got, want));
                }
                n += 1;
            }
            Data::Bucket(_) => return Err("unexpected bucket in s".into()),
        }
        if n > 10_000 {
            return Err("cursor does not terminate".into());
        }
    }
    if n != p.keys {
        return Err(format!("bucket s of version {} has {} keys instead of {}", v, n, p.keys));
    }
    Ok(())
}

fn write_version(db: &DB, p: &Params, v: u32) -> Result<(), String> {
    let tx = db.tx(true).map_err(|e| format!("tx(true): {}", e))?;
    {
        let b = tx.get_or_create_bucket("d").map_err(|e| format!("bucket: {}", e))?;
        let now = keyset(p, v);
        if v > 0 {
            for k in keyset(p, v - 1) {
                if !now.contains(&k) {
                    b.delete(key_of(k)).map_err(|e| format!("delete: {}", e))?;
                }
            }
        }
        for k in now {
            b.put(key_of(k), value_of(p, v, k)).map_err(|e| format!("put: {}", e))?;
        }
    }
    write_slow(&tx, p, v)?;
    tx.commit().map_err(|e| format!("commit: {}", e))
}

/// The next link of the chain, whichever thread writes it: read the current version inside the
/// write transaction, write its successor. The state of version v is a function of v alone, so
/// the chain is the same however the writer threads interleave.
fn write_next_version(db: &DB, p: &Params) -> Result<u32, String> {
    let tx = db.tx(true).map_err(|e| format!("tx(true): {}", e))?;
    let v;
    {
        let b = tx.get_or_create_bucket("d").map_err(|e| format!("bucket: {}", e))?;
        let cur = match b.cursor().next() {
            Some(Data::KeyValue(kv)) if kv.value().len() >= 4 => u32::from_be_bytes(kv.value()[0..4].try_into().unwrap()),
            _ => 0,
        };
        if cur > 1000 {
            return Err(format!("the writer itself reads a damaged version number {}", cur));
        }
        v = cur + 1;
        let now = keyset(p, v);
        for k in keyset(p, v - 1) {
            if !now.contains(&k) {
                b.delete(key_of(k)).map_err(|e| format!("delete: {}", e))?;
            }
        }
        for k in now {
            b.put(key_of(k), value_of(p, v, k)).map_err(|e| format!("put: {}", e))?;
        }
    }
    write_slow(&tx, p, v)?;
    tx.commit().map_err(|e| format!("commit: {}", e))?;
    Ok(v)
}

/// Read everything through one transaction; Ok(version) if exactly one committed state shows.
fn read_version(tx: &jammdb::Tx, p: &Params) -> Result<u32, String> {
    let b = tx.get_bucket("d").map_err(|e| format!("get_bucket: {}", e))?;
    let mut version: Option<u32> = None;
    let mut seen = Vec::new();
    for d in b.cursor() {
        match d {
            Data::KeyValue(kv) => {
                let val = kv.value();
                if val.len() < 8 {
                    return Err(format!("value of {:?} too short", String::from_utf8_lossy(kv.key())));
                }
                let v = u32::from_be_bytes(val[0..4].try_into().unwrap());
                let k = u32::from_be_bytes(val[4..8].try_into().unwrap());
                if kv.key() != key_of(k).as_slice() {
                    return Err(format!("key {:?} holds the value of key {}", String::from_utf8_lossy(kv.key()), k));
                }
                if v > 1000 || val != value_of(p, v, k).as_slice() {
                    return Err(format!("value of key {} (version {}) is damaged", k, v));
                }
                match version {
                    None => version = Some(v),
                    Some(x) if x != v => return Err(format!("one transaction sees version {} and version {} (key {})", x, v, k)),
                    _ => {}
                }
                seen.push(k);
            }
            Data::Bucket(_) => return Err("unexpected bucket".into()),
        }
        if seen.len() > 10_000 {
            return Err("cursor does not terminate".into());
        }
    }
    let v = version.ok_or("empty snapshot")?;
    // point lookups go down the tree by a different route than the scan
    for k in keyset(p, v).into_iter().step_by(3) {
        match b.get(key_of(k)) {
            Some(Data::KeyValue(kv)) if kv.value() == value_of(p, v, k).as_slice() => {}
            Some(_) => return Err(format!("get(key {}) disagrees with the scan of version {}", k, v)),
            None => return Err(format!("get(key {}) finds nothing although the scan of version {} lists it", k, v)),
        }
    }
    let mut want = keyset(p, v);
    want.sort();
    seen.sort();
    if seen != want {
        return Err(format!("version {} shows keys {:?} instead of {:?}", v, seen, want));
    }
    check_slow(tx, p, v)?;
    Ok(v)
}

fn scenario_c04(p: Params, path: String) {
    let db = match OpenOptions::new().pagesize(1024).open(&path) {
        Ok(d) => d,
        Err(e) => return report("sh-open", "open", format!("open: {}", e)),
    };
    let committed = Arc::new(AtomicU64::new(0));
    let mut hs = Vec::new();
    let writers = p.writers.clamp(1, 2);
    for w in 0..writers {
        let db = db.clone();
        let p = p.clone();
        let committed = committed.clone();
        // the chain has p.commits links in total
        let mine = if writers == 1 { p.commits } else if w == 0 { p.commits - p.commits / 2 } else { p.commits / 2 };
        hs.push(shuttle::thread::spawn(move || {
            for i in 0..mine {
                let res = if writers == 1 { write_version(&db, &p, i + 1).map(|_| i + 1) } else { write_next_version(&db, &p) };
                match res {
                    Err(e) => return report("sh-writer", "commit", format!("writer {}, commit {}: {}", w, i, e)),
                    Ok(v) => {
                        committed.fetch_max(v as u64, Ordering::SeqCst);
                        if writers > 1 {
                            probe("chain_link_by_second_writer_thread");
                        }
                    }
                }
            }
        }));
    }
    for r in 0..p.readers {
        let db = db.clone();
        let p = p.clone();
        let committed = committed.clone();
        hs.push(shuttle::thread::spawn(move || {
            for round in 0..p.rounds {
                let floor = committed.load(Ordering::SeqCst);
                let tx = match db.tx(false) {
                    Ok(t) => t,
                    Err(e) => return report("sh-reader", "tx", format!("reader {}: tx(false): {}", r, e)),
                };
                let after = committed.load(Ordering::SeqCst);
                match after - floor {
                    0 => probe("commits_inside_reader_begin=0"),
                    1 => probe("commits_inside_reader_begin=1"),
                    _ => probe("commits_inside_reader_begin>=2"),
                }
                let mut first: Option<u32> = None;
                for rep in 0..=p.rereads {
                    match read_version(&tx, &p) {
                        Err(e) => return report("sh-snapshot", "mixed", format!("reader {} round {} read {}: {}", r, round, rep, e)),
                        Ok(v) => {
                            if (v as u64) < floor {
                                return report(
                                    "sh-snapshot",
                                    "stale",
                                    format!("reader {} began after commit {} had returned but sees version {}", r, floor, v),
                                );
                            }
                            match first {
                                None => first = Some(v),
                                Some(f) if f != v => {
                                    return report("sh-snapshot", "changed", format!("reader {} saw version {} and later version {} in one transaction", r, f, v))
                                }
                                _ => {}
                            }
                        }
                    }
                    yield_point();
                }
                let spanned = committed.load(Ordering::SeqCst).saturating_sub(first.unwrap_or(0) as u64);
                if spanned >= 2 {
                    probe("reader_spanned>=2_commits");
                } else if spanned == 1 {
                    probe("reader_spanned_1_commit");
                }
                drop(tx);
            }
        }));
    }
    for h in hs {
        if h.join().is_err() {
            report("sh-panic", "join", "a thread panicked".into());
        }
    }
    // a reader that begins after everything has completed sees the last commit
    match db.tx(false) {
        Ok(tx) => match read_version(&tx, &p) {
            Ok(v) if v == p.commits => {}
            Ok(v) => report("sh-snapshot", "stale", format!("after all {} commits returned a new reader sees version {}", p.commits, v)),
            Err(e) => report("sh-snapshot", "mixed", format!("final reader: {}", e)),
        },
        Err(e) => report("sh-reader", "tx", format!("final reader: {}", e)),
    }
    drop(db);
    structure_check(&path, "sh-snapshot");
}

// ---------------------------------------------------------------------------------------------
// C10 under threads: readers come and go on other threads while a writer commits; once every
// reader is gone, freed pages must be reused again

fn hwm_of(path: &str) -> Option<u64> {
    let (buf, _) = simos::file_view(path)?;
    crate::fsck::choose_header(&buf, 1024).map(|h| h.num_pages)
}

fn scenario_c10(p: Params, path: String) {
    let db = match OpenOptions::new().pagesize(1024).open(&path) {
        Ok(d) => d,
        Err(e) => return report("sh-open", "open", format!("open: {}", e)),
    };
    let mut hs = Vec::new();
    {
        let db = db.clone();
        let p = p.clone();
        hs.push(shuttle::thread::spawn(move || {
            for v in 1..=p.commits {
                if let Err(e) = write_version(&db, &p, v) {
                    return report("sh-writer", "commit", format!("writer, version {}: {}", v, e));
                }
            }
        }));
    }
    for r in 0..p.readers {
        let db = db.clone();
        let p = p.clone();
        hs.push(shuttle::thread::spawn(move || {
            for _ in 0..p.rounds {
                match db.tx(false) {
                    Ok(tx) => {
                        if let Err(e) = read_version(&tx, &p) {
                            return report("sh-snapshot", "mixed", format!("reader {}: {}", r, e));
                        }
                        drop(tx);
                    }
                    Err(e) => return report("sh-reader", "tx", format!("reader {}: {}", r, e)),
                }
                yield_point();
            }
        }));
    }
    for h in hs {
        if h.join().is_err() {
            report("sh-panic", "join", "a thread panicked".into());
        }
    }
    // no reader is open any more: a steady overwrite workload must reach a plateau
    let mut marks = Vec::new();
    for i in 0..10u32 {
        if let Err(e) = write_version(&db, &p, p.commits + 1 + i) {
            return report("sh-writer", "commit", format!("post-phase commit {}: {}", i, e));
        }
        marks.push(hwm_of(&path).unwrap_or(0));
    }
    let early = marks[..4].iter().cloned().max().unwrap_or(0);
    let late = marks[4..].iter().cloned().max().unwrap_or(0);
    if late > early + 6 {
        report(
            "sh-growth",
            "after readers closed",
            format!("all readers have closed, yet the high-water mark keeps growing under a steady overwrite workload: {:?}", marks),
        );
    } else {
        probe("plateau_after_concurrent_readers");
    }
}

// ---------------------------------------------------------------------------------------------
// C09: writers serialized, no lost update, nobody deadlocks

fn scenario_c09(p: Params, path: String) {
    let db = match OpenOptions::new().pagesize(1024).open(&path) {
        Ok(d) => d,
        Err(e) => return report("sh-open", "open", format!("open: {}", e)),
    };
    let writer_inside = Arc::new(AtomicBool::new(false));
    let commits_done = Arc::new(AtomicU64::new(0));
    let commits_started = Arc::new(AtomicU64::new(0));
    // "a reader is not blocked by an open uncommitted writer": one writer holds its transaction
    // open until a reader has completed a whole transaction
    let reader_done = Arc::new((shuttle::sync::Mutex::new(false), shuttle::sync::Condvar::new()));
    let mut hs = Vec::new();
    for w in 0..p.writers {
        let db = db.clone();
        let p = p.clone();
        let (wi, cd, cs, rd) = (writer_inside.clone(), commits_done.clone(), commits_started.clone(), reader_done.clone());
        hs.push(shuttle::thread::spawn(move || {
            for i in 0..p.commits {
                let tx = match db.tx(true) {
                    Ok(t) => t,
                    Err(e) => return report("sh-writer", "tx", format!("writer {}: tx(true): {}", w, e)),
                };
                if wi.swap(true, Ordering::SeqCst) {
                    return report("sh-serial", "two writers", format!("writer {} obtained a write transaction while another one is open", w));
                }
                if p.hold && w == 0 && i == 0 {
                    probe("writer_held_open_for_reader");
                    let (m, c) = &*rd;
                    let mut g = m.lock().unwrap();
                    while !*g {
                        g = c.wait(g).unwrap();
                    }
                }
                let r = (|| -> Result<(), String> {
                    let b = tx.get_or_create_bucket("c").map_err(|e| e.to_string())?;
                    let cur = match b.get("counter") {
                        Some(Data::KeyValue(kv)) => u64::from_be_bytes(kv.value()[..8].try_into().map_err(|_| "short counter")?),
                        Some(_) => return Err("counter is a bucket".into()),
                        None => 0,
                    };
                    yield_point();
                    b.put("counter", (cur + 1).to_be_bytes().to_vec()).map_err(|e| e.to_string())?;
                    if p.grow && w == 1 && i == 0 {
                        // a value large enough to make this commit grow the file
                        b.put("big", vec![0xabu8; 9 << 20]).map_err(|e| e.to_string())?;
                        probe("growth_commit");
                    }
                    Ok(())
                })();
                if let Err(e) = r {
                    return report("sh-writer", "rmw", format!("writer {}: {}", w, e));
                }
                cs.fetch_add(1, Ordering::SeqCst);
                wi.store(false, Ordering::SeqCst);
                match tx.commit() {
                    Ok(()) => {
                        cd.fetch_add(1, Ordering::SeqCst);
                    }
                    Err(e) => return report("sh-writer", "commit", format!("writer {}: commit: {}", w, e)),
                }
            }
        }));
    }
    for r in 0..p.readers {
        let db = db.clone();
        let p = p.clone();
        let (cd, cs, rd) = (commits_done.clone(), commits_started.clone(), reader_done.clone());
        hs.push(shuttle::thread::spawn(move || {
            let mut last = 0u64;
            for round in 0..p.rounds {
                if (r + round) % 3 == 0 {
                    // the database's own consistency check is a reader like any other: it must
                    // not be blocked by an open writer, and must not block one
                    probe("check_called_concurrently");
                    if let Err(e) = db.check() {
                        return report("sh-lost-update", "structure", format!("reader {}: DB::check while writers run reports: {}", r, e));
                    }
                }
                let before = cd.load(Ordering::SeqCst);
                let tx = match db.tx(false) {
                    Ok(t) => t,
                    Err(e) => return report("sh-reader", "tx", format!("reader {}: {}", r, e)),
                };
                let c = match tx.get_bucket("c") {
                    Ok(b) => match b.get("counter") {
                        Some(Data::KeyValue(kv)) => u64::from_be_bytes(kv.value()[..8].try_into().unwrap_or([0; 8])),
                        _ => 0,
                    },
                    Err(_) => 0,
                };
                drop(tx);
                let after = cs.load(Ordering::SeqCst);
                if c < before || c > after || c < last {
                    return report(
                        "sh-lost-update",
                        "reader",
                        format!("reader {} read counter {} with {} commits completed before it began and {} started by the time it ended (previous read {})", r, c, before, after, last),
                    );
                }
                last = c;
                let (m, cv) = &*rd;
                *m.lock().unwrap() = true;
                cv.notify_all();
            }
        }));
    }
    for h in hs {
        if h.join().is_err() {
            report("sh-panic", "join", "a thread panicked".into());
        }
    }
    // no update lost
    let want = commits_done.load(Ordering::SeqCst);
    let got = (|| -> Result<u64, String> {
        let tx = db.tx(false).map_err(|e| e.to_string())?;
        let b = match tx.get_bucket("c") {
            Ok(b) => b,
            Err(_) => return Ok(0),
        };
        Ok(match b.get("counter") {
            Some(Data::KeyValue(kv)) => u64::from_be_bytes(kv.value()[..8].try_into().unwrap_or([0; 8])),
            _ => 0,
        })
    })();
    match got {
        Ok(g) if g == want => {}
        Ok(g) => report("sh-lost-update", "final", format!("{} read-modify-write transactions committed but the counter is {}", want, g)),
        Err(e) => report("sh-reader", "final", e),
    }
    // what the serialized writers left behind is one well-formed file
    if let Err(e) = db.check() {
        report("sh-lost-update", "structure", format!("after the concurrent transactions the database's own check reports: {}", e));
    }
    drop(db);
    structure_check(&path, "sh-lost-update");
}

/// the independent file checker on the final file
fn structure_check(path: &str, oracle: &str) {
    if let Some((mut buf, len)) = simos::file_view(path) {
        if let Some(h) = crate::fsck::choose_header(&buf, 1024) {
            let need = h.num_pages.saturating_mul(1024).min(len) as usize;
            if buf.len() < need {
                buf.resize(need, 0);
            }
        }
        match crate::fsck::check(&buf, len, 1024) {
            Ok(rep) => {
                if let Some(e) = rep.errors.first() {
                    report(oracle, "structure", format!("after the concurrent transactions the file is not well-formed: {}", e));
                }
            }
            Err(e) => report(oracle, "structure", format!("after the concurrent transactions the file does not parse: {}", e)),
        }
    }
}

// ---------------------------------------------------------------------------------------------
// C13: openers of the same path as simulated processes

fn scenario_c13(p: Params, path: String) {
    let inside = Arc::new(AtomicU64::new(0));
    // markers of openers whose close has completed, in order
    let closed: Arc<Mutex<Vec<u32>>> = Arc::new(Mutex::new(Vec::new()));
    // openers whose wait for the lock was interrupted by a signal: they report an error and
    // never get in, which is a legitimate outcome
    let interrupted: Arc<Mutex<Vec<u32>>> = Arc::new(Mutex::new(Vec::new()));
    simos::set_flock_eintr_after(p.eintr_after as u64);
    simos::set_fail_first_extend(if p.init_fault { libc::ENOSPC } else { 0 });
    let init_fault = p.init_fault;
    let mut hs = Vec::new();
    for o in 0..p.openers {
        let path = path.clone();
        let (inside, closed) = (inside.clone(), closed.clone());
        let hold = p.hold;
        let grow = p.grow;
        let clone_drop = p.clone_drop;
        let eintr = p.eintr_after > 0;
        let interrupted = interrupted.clone();
        hs.push(shuttle::thread::spawn(move || {
            let before: Vec<u32> = closed.lock().unwrap().clone();
            let db = match catch(|| OpenOptions::new().pagesize(1024).num_pages(8).open(&path)) {
                Ok(Ok(d)) => d,
                Ok(Err(jammdb::Error::Io(e))) if eintr && e.kind() == std::io::ErrorKind::Interrupted => {
                    probe("open_interrupted_by_signal");
                    interrupted.lock().unwrap().push(o);
                    return;
                }
                Ok(Err(jammdb::Error::Io(e))) if init_fault && e.raw_os_error() == Some(libc::ENOSPC) => {
                    // the disk was full when this opener tried to allocate the new file: it
                    // reports the error and never gets in
                    probe("open_failed_disk_full_at_creation");
                    interrupted.lock().unwrap().push(o);
                    return;
                }
                Ok(Err(e)) => return report("sh-open", "open error", format!("opener {}: open returned {}", o, e)),
                Err(pn) => return report("sh-open", "open panic", format!("opener {}: open panicked: {}", o, pn)),
            };
            if clone_drop {
                // a clone of the handle going away must not give up the lock the other clone needs
                let c = db.clone();
                drop(c);
                probe("clone_dropped_while_holding");
            }
            let n = inside.fetch_add(1, Ordering::SeqCst) + 1;
            if n > 1 {
                report("sh-exclusive", "two inside", format!("opener {} got the database while {} other opener(s) hold it", o, n - 1));
            }
            let r = catch(|| -> Result<(), String> {
                {
                    // everything committed by openers that closed before my open was called
                    let tx = db.tx(false).map_err(|e| e.to_string())?;
                    for m in &before {
                        let ok = tx.get_bucket("markers").ok().map(|b| b.get(format!("opener{}", m)).is_some()).unwrap_or(false);
                        if !ok {
                            return Err(format!("marker of opener {} (closed before this open began) is missing", m));
                        }
                    }
                }
                if hold {
                    yield_point();
                }
                let tx = db.tx(true).map_err(|e| e.to_string())?;
                let mb = tx.get_or_create_bucket("markers").map_err(|e| e.to_string())?;
                mb.put(format!("opener{}", o), vec![o as u8; 16]).map_err(|e| e.to_string())?;
                if grow && o == 0 {
                    // enough to make this commit extend the file while others may be waiting
                    mb.put("ballast", vec![0x42u8; 200_000]).map_err(|e| e.to_string())?;
                    probe("holder_grew_the_file");
                }
                drop(mb);
                tx.commit().map_err(|e| e.to_string())?;
                if hold {
                    // keep using the database after the (possibly growing) commit: whatever kept
                    // the lock until now must still keep it
                    yield_point();
                    let tx = db.tx(false).map_err(|e| e.to_string())?;
                    let ok = tx.get_bucket("markers").ok().map(|b| b.get(format!("opener{}", o)).is_some()).unwrap_or(false);
                    if !ok {
                        return Err(format!("opener {} does not see the marker it has just committed", o));
                    }
                }
                Ok(())
            });
            match r {
                Ok(Ok(())) => {}
                Ok(Err(e)) => report("sh-exclusive", "marker", format!("opener {}: {}", o, e)),
                Err(pn) => report("sh-open", "use panic", format!("opener {}: panicked while using the database: {}", o, pn)),
            }
            inside.fetch_sub(1, Ordering::SeqCst);
            drop(db);
            closed.lock().unwrap().push(o);
        }));
    }
    for h in hs {
        if h.join().is_err() {
            report("sh-panic", "join", "an opener panicked".into());
        }
    }
    simos::set_flock_eintr_after(0);
    simos::set_fail_first_extend(0);
    let skipped: Vec<u32> = interrupted.lock().unwrap().clone();
    if skipped.len() as u32 >= p.openers {
        // nobody got in (every open was interrupted or met the full disk): nothing to verify
        probe("no_opener_got_in");
        return;
    }
    // afterwards: every marker is there
    let r = catch(|| -> Result<(), String> {
        let db = OpenOptions::new().pagesize(1024).open(&path).map_err(|e| e.to_string())?;
        let tx = db.tx(false).map_err(|e| e.to_string())?;
        let b = tx.get_bucket("markers").map_err(|e| e.to_string())?;
        for o in 0..p.openers {
            if skipped.contains(&o) {
                continue;
            }
            if b.get(format!("opener{}", o)).is_none() {
                return Err(format!("marker of opener {} lost", o));
            }
        }
        Ok(())
    });
    if VIOL.lock().unwrap().is_none() {
        match r {
            Ok(Ok(())) => {}
            Ok(Err(e)) => report("sh-exclusive", "final", e),
            Err(pn) => report("sh-open", "final", format!("final open panicked: {}", pn)),
        }
    }
}

// ---------------------------------------------------------------------------------------------
// executor

fn base_image(prop: &str, p: &Params, path: &str) -> Result<(), String> {
    // built through the real library with no scheduler attached
    let np = if p.grow { 64 } else { 2048 };
    let db = OpenOptions::new().pagesize(1024).num_pages(np).open(path).map_err(|e| e.to_string())?;
    if prop == "C04" || prop == "C10" {
        // version 0, rewritten a few times so that the free list is populated and commits reuse pages
        for _ in 0..3 {
            write_version(&db, p, 0)?;
        }
    } else {
        let tx = db.tx(true).map_err(|e| e.to_string())?;
        tx.get_or_create_bucket("c").map_err(|e| e.to_string())?.put("pad", vec![1u8; 300]).map_err(|e| e.to_string())?;
        tx.commit().map_err(|e| e.to_string())?;
    }
    Ok(())
}

pub fn execute(case: &Case) -> Verdict {
    let case = case.clone();
    let dir = fresh_dir("sh");
    let dir2 = dir.clone();
    let seed = case.seed;
    let h = std::thread::Builder::new().stack_size(64 << 20).spawn(move || {
        simos::reset(&dir2, seed);
        run(&case, &dir2)
    });
    match h.map_err(|e| e.to_string()).and_then(|h| h.join().map_err(|_| "run thread panicked (harness error)".to_string())) {
        Ok(v) => v,
        Err(e) => Verdict { harness_error: Some(e), ..Default::default() },
    }
}

fn run(case: &Case, dir: &str) -> Verdict {
    let mut v = Verdict::default();
    let prop = case.property.clone();
    let p = case.extra.get("params").and_then(Params::from_json).unwrap_or_else(|| Params::draw(&prop, case.seed));
    let path = format!("{}/db", dir);
    jsim_shim::set_writer_preference(p.wpref);
    *VIOL.lock().unwrap_or_else(|e| e.into_inner()) = None;
    PROBES.lock().unwrap_or_else(|e| e.into_inner()).clear();
    if prop != "C13" || p.preexisting {
        // jammdb's locks are shuttle's in this build, so even the set-up runs inside a
        // (single-task) shuttle execution of its own
        let (pr, pp, pa) = (prop.clone(), p.clone(), path.clone());
        let res: Arc<Mutex<Option<Result<(), String>>>> = Arc::new(Mutex::new(None));
        let res2 = res.clone();
        let r = catch(move || {
            let mut c0 = Config::new();
            c0.stack_size = 1 << 20;
            c0.failure_persistence = shuttle::FailurePersistence::None;
            c0.silence_warnings = true;
            Runner::new(RandomScheduler::new_from_seed(0, 1), c0).run(move || {
                *res2.lock().unwrap() = Some(base_image(&pr, &pp, &pa));
            });
        });
        let r = r.map(|_| res.lock().unwrap().take().unwrap_or(Err("set-up did not run".into())));
        match r {
            Ok(Ok(())) => {}
            Ok(Err(e)) => {
                v.aborted = Some(Violation { oracle: "setup".into(), site: "base image".into(), detail: e, step: 0, in_rw_tx: false });
                return v;
            }
            Err(pn) => {
                v.aborted = Some(Violation { oracle: "setup".into(), site: "base image".into(), detail: pn, step: 0, in_rw_tx: false });
                return v;
            }
        }
    }
    let sched = case.extra.get("sched").cloned().unwrap_or(Value::Null);
    let kind = sched.get("kind").and_then(|x| x.as_str()).unwrap_or("random").to_string();
    let sseed: u64 = sched.get("seed").and_then(|x| x.as_str()).and_then(|s| s.parse().ok()).unwrap_or(case.seed);
    let depth = sched.get("depth").and_then(|x| x.as_u64()).unwrap_or(3) as usize;
    let log: Log = Arc::new(Mutex::new(Vec::new()));
    let mut cfg = Config::new();
    cfg.stack_size = 1 << 20;
    cfg.failure_persistence = shuttle::FailurePersistence::None;
    cfg.max_steps = MaxSteps::FailAfter(60_000);
    cfg.silence_warnings = true;
    let sc: Box<dyn shuttle::scheduler::Scheduler + Send> = match kind.as_str() {
        "pct" => Box::new(Recording { inner: PctScheduler::new_from_seed(sseed, depth.max(1), 1), log: log.clone() }),
        "bp" => Box::new(Recording {
            inner: BoundedPreempt { rng: Rng::new(sseed), max: depth as u32 + 1, used: 0, one_in: 12, started: false },
            log: log.clone(),
        }),
        "list" => {
            let list: Vec<u32> = sched.get("list").and_then(|x| x.as_array()).map(|a| a.iter().map(|x| x.as_u64().unwrap_or(u32::MAX as u64) as u32).collect()).unwrap_or_default();
            Box::new(ReplayList { list, pos: 0, started: false, log: log.clone() })
        }
        _ => Box::new(Recording { inner: RandomScheduler::new_from_seed(sseed, 1), log: log.clone() }),
    };
    simos::set_yield_hook(Some(yield_point));
    simos::set_spin_hook(Some(spin_point));
    let runner = Runner::new(sc, cfg);
    let (p2, path2, prop2) = (p.clone(), path.clone(), prop.clone());
    let r = catch(move || {
        runner.run(move || match prop2.as_str() {
            "C04" => scenario_c04(p2.clone(), path2.clone()),
            "C09" => scenario_c09(p2.clone(), path2.clone()),
            "C10" => scenario_c10(p2.clone(), path2.clone()),
            _ => scenario_c13(p2.clone(), path2.clone()),
        })
    });
    simos::set_yield_hook(None);
    simos::set_spin_hook(None);
    let steps = log.lock().unwrap().clone();
    let mut h = Fnv::default();
    for s in &steps {
        h.u64(*s as u64);
    }
    v.trace = h.0;
    v.stats.steps = steps.len() as u64;
    v.stats.commits = 1;
    v.sim_events = simos::total_calls();
    for (k, n) in PROBES.lock().unwrap_or_else(|e| e.into_inner()).iter() {
        v.counters.insert(k.clone(), *n);
    }
    *v.counters.entry(format!("scheduler={}", kind)).or_default() += 1;
    let preemptions = steps.windows(2).filter(|w| w[0] != w[1]).count() as u64;
    v.counters.insert("context_switches".into(), preemptions);
    let viol = VIOL.lock().unwrap_or_else(|e| e.into_inner()).take();
    let mut violation = viol.map(|(o, s, d)| Violation { oracle: o, site: s, detail: d, step: 0, in_rw_tx: false });
    if let Err(pn) = r {
        // a panic that escaped the scenario: deadlock, step bound, or a jammdb panic in a thread
        let (o, s) = if pn.contains("deadlock") {
            ("sh-deadlock", "deadlock")
        } else if pn.contains("exceeded max_steps") || pn.contains("max_steps") {
            ("sh-liveness", "step bound")
        } else {
            ("sh-panic", "thread")
        };
        if violation.is_none() {
            violation = Some(Violation { oracle: o.into(), site: s.into(), detail: format!("execution aborted: {}", pn), step: 0, in_rw_tx: false });
        }
    }
    // which oracles belong to which property
    let mine: &[&str] = match prop.as_str() {
        "C04" => &["sh-snapshot", "sh-panic", "sh-reader", "sh-writer"],
        "C10" => &["sh-growth"],
        "C09" => &["sh-serial", "sh-lost-update", "sh-deadlock", "sh-liveness", "sh-panic", "sh-reader", "sh-writer"],
        _ => &["sh-exclusive", "sh-open", "sh-deadlock", "sh-liveness", "sh-panic"],
    };
    if violation.is_none() {
        v.extra_out = json!({"params": p.to_json(), "scheduler": kind, "decisions": steps.len(), "first_decisions": steps.iter().take(48).collect::<Vec<_>>()});
    }
    if let Some(x) = violation {
        v.extra_out = json!({"params": p.to_json(), "sched": {"kind": "list", "list": steps}});
        if mine.contains(&x.oracle.as_str()) {
            v.violation = Some(x);
        } else {
            v.aborted = Some(x);
        }
    }
    if let Some(hf) = crate::seq::HARNESS_FAULT.with(|p| p.borrow_mut().take()) {
        v.harness_error = Some(format!("the harness itself panicked: {}", hf));
    }
    v
}

/// Minimise a failing case: smaller scenario, then fewer scheduling decisions.
pub fn minimise(case: &Case) -> Case {
    let first = execute(case);
    let (oracle, site) = match &first.violation {
        Some(v) => (v.oracle.clone(), v.site.clone()),
        None => return case.clone(),
    };
    let same = |c: &Case| -> Option<Verdict> {
        let v = execute(c);
        match &v.violation {
            Some(x) if x.oracle == oracle && x.site == site => Some(v),
            _ => None,
        }
    };
    // pin the schedule as an explicit list
    let mut best = case.clone();
    best.extra = first.extra_out.clone();
    if same(&best).is_none() {
        // list replay does not reproduce (should not happen): keep the seeded form
        return case.clone();
    }
    let get_list = |c: &Case| -> Vec<u32> {
        c.extra["sched"]["list"].as_array().map(|a| a.iter().map(|x| x.as_u64().unwrap_or(0) as u32).collect()).unwrap_or_default()
    };
    let with_list = |c: &Case, l: &[u32]| -> Case {
        let mut c2 = c.clone();
        c2.extra["sched"] = json!({"kind": "list", "list": l});
        c2
    };
    // 1. truncate the tail (after it: no more preemptions)
    let mut list = get_list(&best);
    let mut lo = 0usize;
    let mut hi = list.len();
    while lo < hi {
        let mid = (lo + hi) / 2;
        let c = with_list(&best, &list[..mid]);
        if same(&c).is_some() {
            hi = mid;
        } else {
            lo = mid + 1;
        }
    }
    list.truncate(hi);
    best = with_list(&best, &list);
    // 2. remove preemptions one at a time: replace a decision by "keep running"
    let mut budget = 400;
    let mut i = 0;
    while i < list.len() && budget > 0 {
        if i > 0 && list[i] != list[i - 1] && list[i] != u32::MAX {
            let mut l2 = list.clone();
            l2[i] = u32::MAX;
            budget -= 1;
            let c = with_list(&best, &l2);
            if same(&c).is_some() {
                list = l2;
                best = c;
            }
        }
        i += 1;
    }
    let last = execute(&best);
    best.expect = Some((oracle, site));
    best.trace = Some(last.trace);
    best
}
