//! jsim-sh: the shuttle side of the simulator (C04, C09, C13). jammdb is built from /repo's
//! sources through the generated shadow manifest with --cfg jammdb_verif, so its locks are
//! shuttle's. Driven by jsim (the orchestrator) through `worker`, `oneshot` and `minimise`.
#![allow(dead_code)]
#[path = "../../sim/src/case.rs"]
mod case;
#[path = "../../sim/src/fsck.rs"]
mod fsck;
#[path = "../../sim/src/gen.rs"]
mod gen;
#[path = "../../sim/src/model.rs"]
mod model;
#[path = "../../sim/src/rng.rs"]
mod rng;
#[path = "../../sim/src/seq.rs"]
mod seq;
#[path = "../../sim/src/simos.rs"]
mod simos;
#[path = "../../sim/src/step.rs"]
mod step;
#[path = "../../sim/src/worker.rs"]
mod worker;

mod sched;
mod sh;

use case::Case;
use serde_json::Value;
use std::io::{Read, Write};

fn read_case_stdin() -> Option<Case> {
    let mut s = String::new();
    let _ = std::io::stdin().read_to_string(&mut s);
    serde_json::from_str::<Value>(&s).ok().and_then(|v| Case::from_json(&v))
}

fn cleanup() {
    simos::bypass(|| {
        let _ = std::fs::remove_dir_all(sh::scratch_root());
    });
}

fn main() {
    seq::install_panic_hook();
    let args: Vec<String> = std::env::args().skip(1).collect();
    if matches!(args.first().map(|s| s.as_str()), Some("worker") | Some("traces") | Some("oneshot") | Some("minimise")) {
        simos::limit_address_space();
    }
    let code = match args.first().map(|s| s.as_str()) {
        Some("worker") if args.len() >= 8 => worker::run_worker(&args[1..], &|p, s, t| sh::draw_case(p, s, t), &|c| sh::execute(c), &cleanup),
        Some("traces") if args.len() >= 7 => worker::run_traces(&args[1..], &|p, s, t| sh::draw_case(p, s, t), &|c| sh::execute(c), &cleanup),
        Some("oneshot") => match read_case_stdin() {
            Some(c) => {
                let v = sh::execute(&c);
                cleanup();
                println!("{}", worker::verdict_json(&v));
                0
            }
            None => 3,
        },
        Some("draw") if args.len() >= 4 => {
            let c = sh::draw_case(&args[1], args[2].parse().unwrap_or(0), &args[3]);
            println!("{}", c.to_json());
            0
        }
        Some("minimise") => match read_case_stdin() {
            Some(c) => {
                let m = sh::minimise(&c);
                cleanup();
                println!("{}", m.to_json());
                0
            }
            None => 3,
        },
        _ => {
            eprintln!("usage: jsim-sh worker ... | oneshot | minimise   (case JSON on stdin)");
            2
        }
    };
    let _ = std::io::stdout().flush();
    std::process::exit(code);
}
