//! Schedulers: a recording wrapper around shuttle's seeded schedulers, a seeded
//! bounded-preemption scheduler, and a list-replay scheduler used for minimisation and replay.
use crate::rng::Rng;
use shuttle::scheduler::{Schedule, Scheduler, Task, TaskId};
use std::sync::{Arc, Mutex};

pub type Log = Arc<Mutex<Vec<u32>>>;

/// With JSIM_SCHEDLOG=<file> every scheduling decision is appended to that file as it is taken,
/// so that the schedule of an execution that kills its process is known to the parent.
fn schedlog(line: impl FnOnce() -> String) {
    crate::seq::steplog_to("JSIM_SCHEDLOG", line)
}

pub struct Recording<S: Scheduler> {
    pub inner: S,
    pub log: Log,
}

impl<S: Scheduler> Scheduler for Recording<S> {
    fn new_execution(&mut self) -> Option<Schedule> {
        schedlog(|| "#exec".to_string());
        self.inner.new_execution()
    }
    fn next_task(&mut self, runnable: &[&Task], current: Option<TaskId>, is_yielding: bool) -> Option<TaskId> {
        let t = self.inner.next_task(runnable, current, is_yielding)?;
        schedlog(|| usize::from(t).to_string());
        self.log.lock().unwrap().push(usize::from(t) as u32);
        Some(t)
    }
    fn next_u64(&mut self) -> u64 {
        self.inner.next_u64()
    }
}

fn default_choice(runnable: &[&Task], current: Option<TaskId>, is_yielding: bool) -> TaskId {
    let ids: Vec<usize> = runnable.iter().map(|t| usize::from(t.id())).collect();
    match current.map(usize::from) {
        Some(c) if ids.contains(&c) && !is_yielding => TaskId::from(c),
        Some(c) if is_yielding => {
            // round robin past the yielding task
            let next = ids.iter().find(|i| **i > c).or_else(|| ids.first()).unwrap();
            TaskId::from(*next)
        }
        _ => TaskId::from(*ids.iter().min().unwrap()),
    }
}

/// Follows a recorded list of task choices; where the list ends (or names a task that is not
/// runnable) it keeps running the current task, i.e. no further preemption.
pub struct ReplayList {
    pub list: Vec<u32>,
    pub pos: usize,
    pub started: bool,
    pub log: Log,
}

impl Scheduler for ReplayList {
    fn new_execution(&mut self) -> Option<Schedule> {
        if self.started {
            return None;
        }
        self.started = true;
        self.pos = 0;
        schedlog(|| "#exec".to_string());
        Some(Schedule::new(0))
    }
    fn next_task(&mut self, runnable: &[&Task], current: Option<TaskId>, is_yielding: bool) -> Option<TaskId> {
        let want = self.list.get(self.pos).copied();
        self.pos += 1;
        let t = match want {
            Some(w) if w != u32::MAX && runnable.iter().any(|t| usize::from(t.id()) as u32 == w) => TaskId::from(w as usize),
            _ => default_choice(runnable, current, is_yielding),
        };
        schedlog(|| usize::from(t).to_string());
        self.log.lock().unwrap().push(usize::from(t) as u32);
        Some(t)
    }
    fn next_u64(&mut self) -> u64 {
        self.pos as u64
    }
}

/// Runs the current task unless one of at most `max` seeded preemption points says otherwise.
pub struct BoundedPreempt {
    pub rng: Rng,
    pub max: u32,
    pub used: u32,
    pub one_in: u64,
    pub started: bool,
}

impl Scheduler for BoundedPreempt {
    fn new_execution(&mut self) -> Option<Schedule> {
        if self.started {
            return None;
        }
        self.started = true;
        Some(Schedule::new(0))
    }
    fn next_task(&mut self, runnable: &[&Task], current: Option<TaskId>, is_yielding: bool) -> Option<TaskId> {
        let ids: Vec<usize> = runnable.iter().map(|t| usize::from(t.id())).collect();
        let cur = current.map(usize::from);
        let cur_ok = cur.map(|c| ids.contains(&c)).unwrap_or(false) && !is_yielding;
        if cur_ok {
            if self.used < self.max && ids.len() > 1 && self.rng.below(self.one_in) == 0 {
                self.used += 1;
                let others: Vec<usize> = ids.iter().cloned().filter(|i| Some(*i) != cur).collect();
                return Some(TaskId::from(*self.rng.pick(&others)));
            }
            return Some(TaskId::from(cur.unwrap()));
        }
        // forced switch (blocked, finished or yielding): free choice, not counted
        let others: Vec<usize> = if is_yielding && ids.len() > 1 { ids.iter().cloned().filter(|i| Some(*i) != cur).collect() } else { ids };
        Some(TaskId::from(*self.rng.pick(&others)))
    }
    fn next_u64(&mut self) -> u64 {
        self.rng.next()
    }
}
